"""C08 - constraints reach through the object hierarchy to exactly the fields they name.

All object trees of depth <= 2 and fan-out <= 2 built from two classes (two
siblings of the same class always present, every attribute random or
non-random, optional rand_list_t / list_t of two leaves) x cross-level
constraint sets.  Every environment-answer sequence with at most one
non-default answer (two for the sibling-pair oracle):
  * top blocks and the blocks of every sub-object that is random in the call
    hold on the path-named fields; a non-random sub-object keeps its values
    and its own block is NOT imposed (it is preset to violate it);
  * per-field reachable value sets equal the projections of the reference
    solution set; the reachable (s1.f, s2.f) pairs of the two siblings equal
    the pair projection (aliasing of siblings shows as a correlation).
"""
import itertools

from mc import common
from mc.common import vsc, Script, SRandState, explore
from props import objtree as OT

PID = "C08"


def presets(spec):
    """non-random sub-objects are put into states that violate / satisfy their own block"""
    out = [{}]
    p1 = {}
    for p, (k, r) in OT.objects(spec).items():
        if not r:
            if k == "leaf":
                p1[p + ".x"] = 2
                p1[p + ".y"] = 1
            else:
                p1[p + ".z"] = 0
    if p1:
        out.append(p1)
        p2 = {}
        for p, (k, r) in OT.objects(spec).items():
            if not r:
                if k == "leaf":
                    p2[p + ".x"] = 1
                    p2[p + ".y"] = 3
                else:
                    p2[p + ".z"] = 2
        out.append(p2)
    return out


def run_case(case):
    spec = case["spec"]
    cnt = {"executions": 0, "transitions": 0, "states": 0, "nontrivial": 0, "equality_checked": 0, "pairs_checked": 0}
    viol = []
    sf = OT.scalar_fields(spec)
    rnames_all = [p for p, r in sf.items() if r]

    def bad(sub, what, obs, exp, pre, choices=None):
        if len(viol) < 5:
            viol.append({"subcheck": sub, "case": {"spec": spec, "preset": pre, "choices": choices}, "observed": obs,
                         "expected": exp, "what": what})

    for pre in presets(spec):
        holder = {}

        def run(s):
            top = OT.build(spec)
            OT.preset(top, spec, pre)
            before = OT.snapshot(top)
            top.set_randstate(SRandState(s))
            out = common.outcome(top.randomize)
            return out, before, OT.snapshot(top)
        # reference
        top0 = OT.build(spec)
        OT.preset(top0, spec, pre)
        fixed = OT.snapshot(top0)
        enum = OT.solutions(spec, fixed) if len(rnames_all) <= 8 else None
        sols = None
        if enum is not None:
            rnames, sols = enum
            full = 4 ** len(rnames)
            if 0 < len(sols) < full:
                cnt["nontrivial"] = 1
        reached = []
        st = {}

        def judge(x):
            out, before, after = x.obs
            cnt["executions"] += 1
            cnt["transitions"] += len(x.trace) + 1
            if out[0] != "ok":
                if sols is None and out[0] == "solvefail":
                    return
                if sols is None or sols or out[0] != "solvefail":
                    bad("unexpected_failure", "tree %r preset %r: randomize ended with %r although solutions exist" % (spec, pre, out),
                        list(out), "returns", pre, x.choices)
                return
            if sols is not None and not sols:
                bad("missed_unsat", "no solution exists but randomize returned %r" % (after,), after, "SolveFailure", pre, x.choices)
                return
            for p, r in sf.items():
                if not r and after[p] != before[p]:
                    bad("nonrandom_subobject_changed", "field %s belongs to a non-random part of the tree but changed %r -> %r" % (
                        p, before[p], after[p]), [p, after[p]], [p, before[p]], pre, x.choices)
            if not OT.constraints_hold(spec, after):
                bad("constraint_on_wrong_field", "tree %r: returned values %r violate the constraints named by path" % (spec, after),
                    after, "all active blocks hold on the named instances", pre, x.choices)
            reached.append(after)
        # pass 1: every answer sequence with at most one non-default answer
        for x in explore(run, bound=1, cap=6000, state=st):
            judge(x)
        capped = st.get("capped")
        cnt["states"] += len(set(tuple(sorted(r.items())) for r in reached))
        if capped or sols is None or not sols or viol:
            continue
        # pass 2 (equality): witness-directed executions.  For every value of
        # every field projection and every value pair of the sibling pairs,
        # the range/pattern draws of ALL fields are answered with a reference
        # solution containing the target; the call must then return exactly
        # that solution (its recorded plain choice sequence is replayable).
        idx = {p: i for i, p in enumerate(rnames)}
        targets = []
        for p in rnames:
            for v in sorted(set(t[idx[p]] for t in sols)):
                targets.append(((p,), (v,)))
        for p, q in _pairs(spec):
            if p in idx and q in idx:
                for vv in sorted(set((t[idx[p]], t[idx[q]]) for t in sols)):
                    targets.append(((p, q), vv))
                cnt["pairs_checked"] += 1
        cnt["equality_checked"] += 1
        for names, vals in targets:
            cands = [t for t in sols if all(t[idx[n]] == v for n, v in zip(names, vals))]
            ok = False
            last = None
            for t in cands[:4]:
                tgt = dict(zip(rnames, t))
                s_ = Script([])
                s_.strategy = common.witness_strategy(tgt, priority=names)
                out, before, after = run(s_)
                cnt["executions"] += 1
                cnt["transitions"] += len(s_.trace) + 1
                last = (out, after, s_.choices())
                if out[0] == "ok" and all(after[n] == v for n, v in zip(names, vals)):
                    ok = True
                    if not OT.constraints_hold(spec, after):
                        bad("constraint_on_wrong_field", "tree %r: returned values %r violate the constraints" % (spec, after),
                            after, "constraints hold", pre, s_.choices())
                    break
            if not ok:
                bad("over_constrained_or_aliased",
                    "tree %r preset %r: %s = %r is part of reference solutions (e.g. %r) but steering every field to such a "
                    "solution returned %r - a constraint reaches a field it does not name, or two instances alias" % (
                        spec, pre, names, vals, dict(zip(rnames, cands[0])), last[1] if last else None),
                    {"target": [list(names), list(vals)], "got": last[1] if last else None},
                    "the solution itself", pre, last[2] if last else None)
    return {"cnt": cnt, "viol": viol}


def _missing(rnames, sols, reached, spec, pair_ok):
    out = []
    idx = {p: i for i, p in enumerate(rnames)}
    for p in rnames:
        exp = set(t[idx[p]] for t in sols)
        got = set(r[p] for r in reached)
        m = sorted(exp - got)
        if m:
            out.append(("field", p, m))
    if pair_ok:
        for p, q in _pairs(spec):
            if p in idx and q in idx:
                exp = set((t[idx[p]], t[idx[q]]) for t in sols)
                got = set((r[p], r[q]) for r in reached)
                m = sorted(exp - got)
                if m:
                    out.append(("pair", (p, q), m))
    return out


# ------------------------------------------------------------------ index-selected and nested-list references

def mk_indexed():
    @vsc.randobj
    class Leaf4(object):
        def __init__(self):
            self.x = vsc.rand_bit_t(3)
            self.y = vsc.rand_bit_t(3)

        @vsc.constraint
        def cxy(self):
            self.x < self.y

    @vsc.randobj
    class Mid4(object):
        def __init__(self, n):
            self.inner = vsc.rand_list_t(Leaf4())
            for _ in range(n):
                self.inner.append(Leaf4())

    @vsc.randobj
    class TopSel(object):
        """the index of a subscript is a non-random field the user changes between calls"""
        def __init__(self):
            self.sel = vsc.bit_t(2)
            self.l = vsc.rand_list_t(Leaf4())
            for _ in range(3):
                self.l.append(Leaf4())

        @vsc.constraint
        def csel(self):
            self.l[self.sel].x == 5
            with vsc.foreach(self.l, idx=True) as i:
                with vsc.if_then(i != self.sel):
                    self.l[i].x < 4

    @vsc.randobj
    class TopNest(object):
        """nested foreach over inner lists of different lengths"""
        def __init__(self, sizes):
            self.outer = vsc.rand_list_t(Mid4(1))
            for n in sizes:
                self.outer.append(Mid4(n))

        @vsc.constraint
        def cn(self):
            with vsc.foreach(self.outer, idx=True) as i:
                with vsc.foreach(self.outer[i].inner, idx=True) as j:
                    self.outer[i].inner[j].x >= i + j + 2
    return TopSel, TopNest


def mk_own():
    """a foreach in the OWN block of an object that sits below a list element (and below a plain attribute)"""
    @vsc.randobj
    class Cell(object):
        def __init__(self, n):
            self.vals = vsc.rand_list_t(vsc.bit_t(3), n)

        @vsc.constraint
        def cv(self):
            with vsc.foreach(self.vals, idx=True) as i:
                self.vals[i] < i + 2

    @vsc.randobj
    class Wrap(object):
        def __init__(self, n):
            self.cell = vsc.rand_attr(Cell(n))
            self.t = vsc.rand_bit_t(2)

    @vsc.randobj
    class Frozen(object):
        """sits below a NON-random attribute: nothing in it may change, its random-size list included"""
        def __init__(self):
            self.q = vsc.rand_bit_t(3)
            self.rl = vsc.randsz_list_t(vsc.bit_t(3))
            for v in (1, 2, 3):
                self.rl.append(v)

        @vsc.constraint
        def cq(self):
            self.rl.size < 6
            self.q < 2

    @vsc.randobj
    class Win(object):
        def __init__(self):
            self.v = vsc.rand_bit_t(3)
            self.lo = vsc.rand_bit_t(3)
            self.hi = vsc.rand_bit_t(3)

    @vsc.randobj
    class TopOwn(object):
        def __init__(self, sizes):
            self.wins = vsc.rand_list_t(Win())
            for _ in range(len(sizes)):
                self.wins.append(Win())
            self.frozen = vsc.attr(Frozen())
            self.frozen.q = 5
            self.one = vsc.rand_attr(Wrap(sizes[0]))
            self.l = vsc.rand_list_t(Wrap(1))
            for n in sizes[1:]:
                self.l.append(Wrap(n))
            self.direct = vsc.rand_list_t(Cell(1))
            self.direct.append(Cell(sizes[-1]))

        @vsc.constraint
        def cw(self):
            # element fields on both sides of a membership, element by element
            with vsc.foreach(self.wins, idx=True) as i:
                self.wins[i].lo == i + 1
                self.wins[i].hi == i + 4
                self.wins[i].v.inside(vsc.rangelist(self.wins[i].lo, self.wins[i].hi))
    return TopOwn


def run_indexed(job):
    kind = job[0]
    cnt = {"executions": 0, "transitions": 0, "states": 0, "nontrivial": 1, "equality_checked": 0, "pairs_checked": 0}
    viol = []
    TopSel, TopNest = mk_indexed()

    def bad(sub, what, obs, exp, choices):
        if len(viol) < 4:
            viol.append({"subcheck": sub, "case": {"indexed": list(job), "choices": choices}, "observed": obs, "expected": exp, "what": what})
    if kind == "own":
        sizes = job[1]
        TopOwn = mk_own()

        def run(s):
            o = TopOwn(sizes)
            o.set_randstate(SRandState(s))
            out = common.outcome(o.randomize)
            d = {"one": [int(v) for v in o.one.cell.vals], "direct[0]": [int(v) for v in o.direct[0].vals]}
            for k, w in enumerate(o.l):
                d["l[%d]" % k] = [int(v) for v in w.cell.vals]
            fz = (int(o.frozen.q), [int(v) for v in o.frozen.rl], len(o.frozen.rl), int(o.frozen.rl.size))
            d["__wins"] = [(int(w.v), int(w.lo), int(w.hi)) for w in o.wins]
            return out[0], d, fz
        for x in explore(run, bound=1, cap=4000):
            cnt["executions"] += 1
            cnt["transitions"] += len(x.trace) + 1
            res_, d, fz = x.obs
            if fz != (5, [1, 2, 3], 3, 3):
                bad("nonrandom_subobject_changed", "sizes %r: the non-random sub-object 'frozen' (q=5, random-size list [1,2,3]) reads "
                    "q=%r list=%r len=%r size=%r after the call" % (sizes, fz[0], fz[1], fz[2], fz[3]), list(fz), [5, [1, 2, 3], 3, 3], x.choices)
            if res_ != "ok":
                bad("indexed_call_failed", "own-block foreach, sizes %r: call ended with %r" % (sizes, res_), res_, "returns", x.choices)
                continue
            wins = d.pop("__wins")
            for k, (v, lo, hi) in enumerate(wins):
                if not (lo == k + 1 and hi == k + 4 and v in (lo, hi)):
                    bad("index_denotes_wrong_element", "sizes %r: wins[%d] = (v=%d, lo=%d, hi=%d); the foreach demands lo=%d, hi=%d and "
                        "v inside {lo, hi} of the SAME element (all: %r)" % (sizes, k, v, lo, hi, k + 1, k + 4, wins), wins,
                        "per-element membership", x.choices)
            for path, vals in d.items():
                if not all(v < 2 + i for i, v in enumerate(vals)):
                    bad("subobject_block_not_enforced", "sizes %r: %s.vals = %r violates the foreach of its own block (vals[i] < 2+i); all "
                        "values %r" % (sizes, path, vals, d), d, "every element obeys its object's block", x.choices)
        cnt["states"] = 1
        return {"cnt": cnt, "viol": viol}
    if kind == "sel":
        seq = job[1]

        def run(s):
            o = TopSel()
            o.set_randstate(SRandState(s))
            outs = []
            for sv in seq:
                o.sel = sv
                out = common.outcome(o.randomize)
                outs.append((out[0], sv, [(int(e.x), int(e.y)) for e in o.l]))
            return outs
        for x in explore(run, bound=1, cap=4000):
            cnt["executions"] += len(seq)
            cnt["transitions"] += len(x.trace) + len(seq)
            for k, (res_, sv, vals) in enumerate(x.obs):
                if res_ != "ok":
                    bad("indexed_call_failed", "selector sequence %r: call %d (sel=%d) ended with %r" % (seq, k, sv, res_), res_, "returns", x.choices)
                    continue
                ok = all((vx == 5) if i == sv else (vx < 4) for i, (vx, vy) in enumerate(vals)) and all(vx < vy for vx, vy in vals)
                if not ok:
                    bad("index_denotes_wrong_element", "selector sequence %r: after call %d with sel=%d the list is %r; l[sel].x must be 5, "
                        "the others below 4" % (seq, k, sv, vals), vals, "l[%d].x == 5" % sv, x.choices)
    else:
        sizes = job[1]

        def run(s):
            o = TopNest(sizes)
            o.set_randstate(SRandState(s))
            out = common.outcome(o.randomize)
            return out[0], [[(int(e.x), int(e.y)) for e in m.inner] for m in o.outer]
        for x in explore(run, bound=1, cap=4000):
            cnt["executions"] += 1
            cnt["transitions"] += len(x.trace) + 1
            res_, vals = x.obs
            if res_ != "ok":
                bad("indexed_call_failed", "inner sizes %r: call ended with %r" % (sizes, res_), res_, "returns", x.choices)
                continue
            for i, inner in enumerate(vals):
                for j, (vx, vy) in enumerate(inner):
                    if not (vx >= i + j + 2 and vx < vy):
                        bad("index_denotes_wrong_element", "inner sizes %r: outer[%d].inner[%d] = (x=%d,y=%d) violates x >= %d, x < y "
                            "(values %r)" % (sizes, i, j, vx, vy, i + j + 2, vals), vals, "foreach body holds for every element", x.choices)
    cnt["states"] = 1
    return {"cnt": cnt, "viol": viol}


def indexed_jobs(tier):
    import itertools as it
    jobs = [("sel", list(s)) for s in it.product(range(3), repeat=2)] + [("sel", [0, 2, 1]), ("sel", [2, 2, 0]), ("sel", [1, 0, 1])]
    for sizes in ([1, 3, 2], [2, 1], [1, 2], [3, 1, 2], [2, 2]):
        jobs.append(("nest", sizes))
    for sizes in ([2, 3], [1, 2, 3], [3, 1, 4], [2, 2, 2]):
        jobs.append(("own", sizes))
    return jobs


def _pairs(spec):
    if spec["kind"] == "leaf":
        pr = [("s1.x", "s2.x"), ("s1.y", "s2.y")]
    else:
        pr = [("s1.z", "s2.z"), ("s1.s.x", "s2.s.x"), ("s1.s.y", "s2.s.y")]
    if spec.get("lst"):
        pr += [("l[0].x", "l[1].x"), ("l[0].y", "l[1].y"), ("s1.x", "l[0].x") if spec["kind"] == "leaf" else ("s1.s.x", "l[0].x")]
    return pr


def classify(v):
    return None


def run(res, only=None):
    specs = OT.all_specs(res.tier)
    if res.tier == "quick":
        specs = [s for i, s in enumerate(specs)]
    cases = common.rotate([{"spec": s} for s in specs], res.seed)
    out = common.pmap(run_case, cases, chunk=1)
    nontriv = 0
    for c, r in common.good(cases, out, res):
        cnt = r["cnt"]
        res.add("traces_validated_against_impl", cnt["executions"])
        res.add("transitions", cnt["transitions"])
        res.add("states", cnt["states"])
        res.add("evaluations", cnt["executions"])
        nontriv += cnt["nontrivial"]
        res.subcount("trees", "programs")
        res.subcount("trees", "equality_checked", cnt["equality_checked"])
        res.subcount("trees", "sibling_pairs_checked", cnt["pairs_checked"])
        for v in r["viol"]:
            v["finding"] = classify(v)
            res.violation(v)
    ij = indexed_jobs(res.tier)
    for j, r in common.good(ij, common.pmap(run_indexed, ij, chunk=1), res):
        cnt = r["cnt"]
        res.add("traces_validated_against_impl", cnt["executions"])
        res.add("transitions", cnt["transitions"])
        res.add("states", cnt["states"])
        res.add("evaluations", cnt["executions"])
        nontriv += 1
        res.subcount("trees", "indexed_reference_programs")
        for v in r["viol"]:
            v["finding"] = classify(v)
            res.violation(v)
    res.cov["distinct_nontrivial"] = nontriv
    res.cov["rule"] = ("one case = one object tree with its cross-level constraint set (all presets of its non-random parts); "
                       "non-trivial if the reference solution set is neither empty nor everything")
    res.cov["exhaustive"] = True
    res.sample({"tree": cases[0]["spec"]})
    res.sample({"tree": cases[len(cases) // 2]["spec"]})


def replay(rec):
    c = rec["case"]
    if "indexed" in c:
        r = run_indexed(tuple(c["indexed"]))
        bad = [v for v in r["viol"] if v["subcheck"] == rec["subcheck"]]
        return (not bad), (bad[0]["what"] if bad else "holds")
    spec = dict(c["spec"])
    spec["cons"] = tuple(spec.get("cons", ()))
    r = run_case({"spec": spec})
    bad = [v for v in r["viol"] if v["subcheck"] == rec["subcheck"]]
    return (not bad), (bad[0]["what"] if bad else "holds")

r"""C05 - soft constraints are never fatal, honoured maximally, later ones win.

All combinations of a hard-statement menu and a soft-statement menu (softs
optionally nested under if/else/implies, in the class block or inline), every
environment-answer sequence within the deviation bound, two consecutive calls
on the same object (priorities must not drift from call to call).

Oracle: exact greedy-by-priority reference over the exhaustively enumerated
value space: each soft is read as (conjunction of its guards) -> expression,
priority = statement order, inline after class.  Every returned assignment
must lie in   hard /\ G   where G is the greedy set.
"""
import itertools

from mc import common, sweep, ref, gen, prog as P
from mc.common import Script, SRandState, explore
from mc.gen import U2, fld
from props.c01 import _detuple

PID = "C05"
A_, B_, X_ = ('f', 'a'), ('f', 'b'), ('f', 'x')


def L(v):
    return ('lit', v)


HARD = [
    ('expr', ('bin', '<', A_, B_)),
    ('expr', ('bin', '!=', A_, L(1))),
    ('expr', ('bin', '<=', B_, L(2))),
    ('expr', ('bin', '==', ('bin', '+', A_, B_), L(3))),
    ('expr', ('bin', '>', B_, X_)),
    ('implies', ('bin', '==', A_, L(0)), [('expr', ('bin', '==', B_, L(3)))]),
]
SOFT = [
    ('bin', '==', A_, L(1)),
    ('bin', '==', A_, L(2)),
    ('bin', '==', B_, L(3)),
    ('bin', '==', B_, L(0)),
    ('bin', '>', A_, B_),
    ('bin', '==', A_, B_),
    ('bin', '<', A_, X_),
    ('in', B_, [1, 2]),
]
GUARDS = [('bin', '==', B_, L(0)), ('bin', '<', A_, L(2)), ('bin', '==', X_, L(1))]


def flatten_softs(stmts, guards=()):
    """visit order list of (guards, expr); guards = tuple of (expr, polarity)"""
    out = []
    for st in stmts:
        k = st[0]
        if k == 'soft':
            out.append((tuple(guards), st[1]))
        elif k == 'implies':
            out += flatten_softs(st[2], tuple(guards) + ((st[1], True),))
        elif k == 'if':
            out += flatten_softs(st[2], tuple(guards) + ((st[1], True),))
            els = st[3]
            if els is not None:
                g2 = tuple(guards) + ((st[1], False),)
                if isinstance(els, tuple) and els and els[0] == 'if':
                    out += flatten_softs([els], g2)
                else:
                    out += flatten_softs(els, g2)
    return out


def soft_holds(sf, types, vals):
    guards, e = sf
    for g, pol in guards:
        t = ref.truth(g, types, vals)
        if t is None:
            return None
        if t != pol:
            return True
    return ref.truth(e, types, vals)


def greedy(prog, X):
    """(allowed set of (a,b,...) tuples, kept soft indices) or (None, None) if hard unsat; 'amb' if undecidable"""
    types = P.types_of(prog)
    rn = sweep.rand_names(prog)
    cls_st = list(prog.get('block') or [])
    inl_st = list(prog.get('inline') or []) if prog.get('call') == 'randomize_with' else []
    hard = cls_st + inl_st          # soft statements evaluate to True in block_truth
    softs = flatten_softs(cls_st) + flatten_softs(inl_st)
    doms = sweep.field_doms(prog)
    vals = dict(X)
    for f in prog['fields']:
        vals.setdefault(f[0], f[4])
    space = []
    for tup in itertools.product(*[doms[n] for n in rn]):
        for n, v in zip(rn, tup):
            vals[n] = v
        t = ref.block_truth(hard, types, vals)
        if t is None:
            return 'amb', None
        if t:
            space.append(tup)
    if not space:
        return None, None
    cur = space
    kept = []
    for i in reversed(range(len(softs))):
        nxt = []
        for tup in cur:
            for n, v in zip(rn, tup):
                vals[n] = v
            h = soft_holds(softs[i], types, vals)
            if h is None:
                return 'amb', None
            if h:
                nxt.append(tup)
        if nxt:
            cur = nxt
            kept.append(i)
    return set(cur), kept


def run_case(case):
    prog = case['prog']
    bound = case.get('bound', 1)
    cnt = {"executions": 0, "transitions": 0, "states": 0, "nontrivial": 0, "ambiguous": 0, "capped": 0}
    viol = []
    rn = sweep.rand_names(prog)
    R = sweep.Runner(prog)
    ncalls = case.get('calls', 2)

    def bad(sub, X, x, what, obs, exp):
        if len(viol) < 4:
            viol.append({"subcheck": sub, "case": {"prog": prog, "X": X, "choices": x.choices, "bound": bound, "calls": ncalls,
                                                  "pre_fail": bool(case.get('pre_fail'))},
                         "observed": obs, "expected": exp, "what": what})

    for X in case['X']:
        allowed, kept = greedy(prog, X)
        if allowed == 'amb':
            cnt["ambiguous"] += 1
            continue
        nsoft = len(flatten_softs(list(prog.get('block') or []) + list(prog.get('inline') or [])))
        if allowed is not None and kept is not None and len(kept) < nsoft:
            cnt["nontrivial"] += 1     # at least one soft has to be dropped

        def run(s):
            o = R.cls()
            P.set_fields(o, prog, X)
            rs = SRandState(s)
            outs = []
            if case.get('pre_fail'):
                # a failing call first: later calls must behave as if it never happened
                o.set_randstate(rs)
                try:
                    with o.randomize_with() as it:
                        it.a == 0
                        it.a == 1
                except Exception:
                    pass
            for _ in range(ncalls):
                out = common.outcome(lambda: P.call(o, prog, rs))
                vals, mism = P.read_fields(o, prog)
                outs.append((out[0], tuple(vals[n] for n in rn), out[1:] if out[0] != 'ok' else ()))
                # non-random fields must stay what the reference was computed from
                P.set_fields(o, prog, X)
            return tuple(outs)
        st = {}
        outcomes = set()
        for x in explore(run, bound=bound, cap=case.get('cap', 6000), state=st):
            cnt["executions"] += ncalls
            cnt["transitions"] += len(x.trace) + ncalls
            outcomes.add(x.obs)
            for ci, (kind, tup, extra) in enumerate(x.obs):
                if allowed is None:
                    if kind != 'solvefail':
                        bad("hard_unsat_not_reported", X, x, "hard part unsatisfiable but call %d ended %r %r" % (ci, kind, tup),
                            [kind, list(tup)], "SolveFailure")
                    continue
                if kind != 'ok':
                    bad("soft_made_it_fatal", X, x,
                        "hard part is satisfiable but call %d ended with %r %r" % (ci, kind, extra), [kind, list(extra)], "returns")
                elif tup not in allowed:
                    bad("not_greedy_maximal", X, x,
                        "call %d returned %r; hard /\\ greedy soft set (kept softs %r, later first) allows only %r" % (
                            ci, dict(zip(rn, tup)), kept, sorted(allowed)[:8]),
                        list(tup), sorted(allowed)[:16])
        if st.get("capped"):
            cnt["capped"] += 1
        cnt["states"] += len(outcomes)
    return {"cnt": cnt, "viol": viol}


def guard_wrap(sf, how):
    s = ('soft', sf)
    if how is None:
        return [s]
    kind, g = how
    if kind == 'if':
        return [('if', g, [s], None)]
    if kind == 'else':
        return [('if', g, [('expr', ('bin', '>=', A_, L(0)))], [s])]
    if kind == 'implies':
        return [('implies', g, [s])]
    if kind == 'ifelse2':
        return [('if', g, [s], [('soft', ('bin', '==', A_, L(3)))])]
    raise ValueError(how)


def cases_for(tier):
    fields = [fld('a', U2), fld('b', U2), fld('x', U2, rnd=False)]
    Xs = [{'x': v} for v in ((1, 3) if tier == 'quick' else (0, 1, 2, 3))]
    hards = [[]] + [[h] for h in HARD]
    if tier != 'quick':
        # pairs of hard statements: every eighth pair (all 15 made the thorough tier run for hours)
        hards += [[h1, h2] for h1, h2 in itertools.combinations(HARD, 2)][::8]
    cases = []
    hows = [None, ('if', GUARDS[0]), ('else', GUARDS[1]), ('implies', GUARDS[2]), ('ifelse2', GUARDS[1])]
    for hard in hards:
        for k in (1, 2, 3):
            for sidx in itertools.permutations(range(len(SOFT)), k):
                if k == 3 and (sidx[0] > sidx[1] or tier == 'quick' and (sidx[0] + sidx[1] + sidx[2]) % 3):
                    continue
                if k == 2 and tier == 'quick' and len(hard) and (sidx[0] + sidx[1]) % 2:
                    continue
                # guard placements: none; first soft guarded; last soft guarded
                plist = [[None] * k]
                for hw in hows[1:]:
                    p1 = [None] * k
                    p1[0] = hw
                    plist.append(p1)
                    if k > 1:
                        p2 = [None] * k
                        p2[-1] = hw
                        plist.append(p2)
                if tier == 'quick':
                    plist = plist[:1] + plist[1 + (sidx[0] % 2)::3]
                for pl in plist:
                    softs = []
                    for j in range(k):
                        softs += guard_wrap(SOFT[sidx[j]], pl[j])
                    # all in the class block
                    cases.append({'prog': {'fields': fields, 'block': hard + softs, 'call': 'randomize'}, 'X': Xs})
                    if k >= 2:
                        # last soft inline (must win over the class-level ones)
                        cut = len(guard_wrap(SOFT[sidx[-1]], pl[-1]))
                        cases.append({'prog': {'fields': fields, 'block': hard + softs[:-cut], 'inline': softs[-cut:],
                                               'call': 'randomize_with'}, 'X': Xs})
                    elif not hard:
                        cases.append({'prog': {'fields': fields, 'block': [], 'inline': softs, 'call': 'randomize_with'}, 'X': Xs})
    return cases


def deep_cases(tier):
    """softs nested three conditions deep / in the third arm of an else_if chain; four and five softs with a
    guarded one late; the same with the last statements inline; each also after a failed call"""
    fields = [fld('a', U2), fld('b', U2), fld('x', U2, rnd=False)]
    Xs = [{'x': v} for v in (0, 1, 2, 3)]
    G = [('bin', '!=', X_, L(0)), ('bin', '<', X_, L(3)), ('bin', '!=', X_, L(1)), ('bin', '>', X_, L(1))]
    S = SOFT
    cases = []
    blocks = []
    for i, j in itertools.permutations(range(4), 2):
        if tier == 'quick' and (i + j) % 2 == 0:
            continue
        # soft three guards deep, with a conflicting lower-priority soft before it
        blocks.append([('soft', S[0]), ('if', G[0], [('if', G[1], [('if', G[2], [('soft', S[1])], None)], None)], None)])
        blocks.append([('soft', S[i]), ('implies', G[0], [('if', G[1], [('implies', G[3], [('soft', S[j])])], [('soft', S[2])])])])
        # third arm of an else_if chain
        blocks.append([('soft', S[i]), ('if', ('bin', '==', X_, L(0)), [('soft', S[2])],
                       ('if', ('bin', '==', X_, L(1)), [('soft', S[3])], ('if', G[1], [('soft', S[j])], [('soft', S[5])])))])
        # several softs before a conflicting guarded one
        blocks.append([('soft', S[2]), ('soft', S[3]), ('soft', S[i]), ('if', G[0], [('soft', S[j])], None)])
        blocks.append([('soft', S[6]), ('soft', S[2]), ('soft', S[7]), ('soft', S[i]), ('implies', G[1], [('soft', S[j])])])
    seen = set()
    for b in blocks:
        k = repr(b)
        if k in seen:
            continue
        seen.add(k)
        cases.append({'prog': {'fields': fields, 'block': b, 'call': 'randomize'}, 'X': Xs})
        # last statement inline
        cases.append({'prog': {'fields': fields, 'block': b[:-1], 'inline': b[-1:], 'call': 'randomize_with'}, 'X': Xs})
        cases.append({'prog': {'fields': fields, 'block': b[:-1], 'inline': b[-1:], 'call': 'randomize_with'}, 'X': Xs, 'pre_fail': True})
        cases.append({'prog': {'fields': fields, 'block': b, 'call': 'randomize'}, 'X': Xs, 'pre_fail': True})
    return cases


def classify(v):
    return None


def run(res, only=None):
    tier = res.tier
    cases = cases_for(tier)
    cases += deep_cases(tier)
    # every 5th program of the main family also after a failed call
    cases += [dict(c, pre_fail=True) for c in cases_for(tier)[::5] if c['prog']['call'] == 'randomize_with']
    for c in cases:
        c['bound'] = 1
    extra = []
    if tier == 'thorough':
        # complete trees for the two-soft class-block programs without hard part
        for c in cases:
            pr = c['prog']
            if pr['call'] == 'randomize' and len(pr['block']) == 2 and all(s[0] == 'soft' for s in pr['block']):
                extra.append({'prog': pr, 'X': c['X'][:2], 'bound': None, 'calls': 1, 'cap': 6000})
        # deviation bound 2 on a slice
        for c in cases[::7]:
            extra.append({'prog': c['prog'], 'X': c['X'][:1], 'bound': 2, 'calls': 2, 'cap': 3000})
    cases = common.rotate(cases + extra, res.seed)
    out = common.pmap(run_case, cases)
    nontriv = 0
    for c, r in common.good(cases, out, res):
        cnt = r["cnt"]
        res.add("traces_validated_against_impl", cnt["executions"])
        res.add("transitions", cnt["transitions"])
        res.add("states", cnt["states"])
        res.add("evaluations", cnt["executions"])
        nontriv += 1 if cnt["nontrivial"] else 0
        res.subcount("soft", "programs")
        res.subcount("soft", "ambiguous", cnt["ambiguous"])
        res.subcount("soft", "capped", cnt["capped"])
        for v in r["viol"]:
            v["finding"] = classify(v)
            res.violation(v)
    res.cov["distinct_nontrivial"] = nontriv
    res.cov["rule"] = ("one case = one program (0-2 hard statements x 1-3 soft statements x guard placement x class/inline); "
                       "non-trivial if the greedy reference has to drop at least one soft constraint for some value of x")
    res.cov["exhaustive"] = True
    res.cov["bounds"] = {"deviation_bound": 1, "calls_per_execution": 2,
                         "thorough_extra": "complete trees for two-soft programs; deviation bound 2 on every 7th program"}
    res.sample({"program": cases[0]["prog"], "X": cases[0]["X"][:1]})
    res.sample({"program": cases[len(cases) // 2]["prog"]})
    res.assumptions.append("greedy-by-priority reference: soft under conditions = (conjunction of guards) implies soft; priority = statement order, inline after class")


def replay(rec):
    c = rec["case"]
    pr = _detuple(c["prog"])
    r = run_case({'prog': pr, 'X': [c["X"]], 'bound': c.get("bound", 1), 'calls': c.get("calls", 2), 'pre_fail': c.get("pre_fail")})
    bad = [v for v in r["viol"] if v["subcheck"] == rec["subcheck"]]
    return (not bad), (bad[0]["what"] if bad else "all results within hard /\\ greedy set")

"""C17 - pre_randomize / post_randomize run once each, before and after the solve.

All object trees of props/objtree.py (nested objects, lists of objects, random
and non-random members at every level) x call kinds (randomize,
randomize_with, free-standing vsc.randomize) x values assigned by the top
object's pre_randomize to a non-random field used in a constraint; every
environment-answer sequence with at most one non-default answer.  Every class
records (object, phase, snapshot of all field values).  Oracle:
  * the multiset of (object, phase) is exactly one 'pre' and one 'post' per
    object that is random in the call (top, random sub-objects, elements of a
    random list), none for a non-random sub-object or anything below it;
  * every pre event precedes every post event and sees the values the fields
    had before the call (no field has been written yet), apart from the
    assignments made by earlier pre callbacks;
  * the solver saw pre's assignment (result satisfies a <= n for the new n);
  * every post event sees the final values of all fields.
"""
import itertools

from mc import common
from mc.common import vsc, Script, SRandState, explore
from props import objtree as OT
from props import c08 as C08

PID = "C17"
CALLS = ("randomize", "randomize_with", "vsc.randomize")


def expected_events(spec):
    exp = {"top": 1}
    for p, (k, r) in OT.objects(spec).items():
        exp[p] = 1 if r else 0
    return exp


def run_case(case):
    spec = case["spec"]
    call = case["call"]
    cnt = {"executions": 0, "transitions": 0, "states": 0, "nontrivial": 0}
    viol = []
    expect = expected_events(spec)
    if any(v == 0 for v in expect.values()) and any(v == 1 for k, v in expect.items() if k != "top"):
        cnt["nontrivial"] = 1

    def bad(sub, what, obs, exp, choices):
        if len(viol) < 5:
            viol.append({"subcheck": sub, "case": {"spec": spec, "call": call, "choices": choices}, "observed": obs,
                         "expected": exp, "what": what})

    def run(s):
        top = OT.build(spec)
        # non-random parts hold values that satisfy the cross-level constraints more often
        ps = C08.presets(spec)
        OT.preset(top, spec, ps[-1])
        del OT.LOG[:]
        before = OT.snapshot(top)
        rs = SRandState(s)
        if call == "randomize":
            top.set_randstate(rs)
            out = common.outcome(top.randomize)
        elif call == "randomize_with":
            top.set_randstate(rs)

            def f():
                with top.randomize_with() as it:
                    it.a != 3
            out = common.outcome(f)
        else:
            out = common.outcome(lambda: vsc.randomize(top, randstate=rs))
        log = list(OT.LOG)
        del OT.LOG[:]
        return out, before, OT.snapshot(top), log
    st = {}
    outcomes = set()
    for x in explore(run, bound=1, cap=4000, state=st):
        out, before, after, log = x.obs
        cnt["executions"] += 1
        cnt["transitions"] += len(x.trace) + 1
        outcomes.add(tuple(sorted(after.items())))
        if out[0] == "solvefail":
            # some trees are unsatisfiable for the preset values of their non-random parts
            # (whether that verdict is right is C02/C08's business)
            cnt["failed_calls"] = cnt.get("failed_calls", 0) + 1
            continue
        if out[0] != "ok":
            bad("unexpected_exception", "call ended with %r" % (out,), list(out), "returns", x.choices)
            continue
        got = {}
        for path, phase, snap in log:
            got[(path, phase)] = got.get((path, phase), 0) + 1
        for p, n in expect.items():
            for ph in ("pre", "post"):
                g = got.get((p, ph), 0)
                if g != n:
                    bad("callback_count", "tree %r call %s: %s_randomize ran %d time(s) on %s, expected %d (%s)" % (
                        spec, call, ph, g, p, n, "random in the call" if n else "non-random sub-object or below one"),
                        {"object": p, "phase": ph, "count": g}, n, x.choices)
        phases = [ph for _, ph, _ in log]
        if "post" in phases and "pre" in phases[phases.index("post"):]:
            bad("order", "a pre_randomize ran after a post_randomize: %r" % ([(p, ph) for p, ph, _ in log],),
                [(p, ph) for p, ph, _ in log], "all pre before all post", x.choices)
        pre_n = spec.get("pre_n")
        for path, phase, snap in log:
            if phase == "pre":
                for k, v in snap.items():
                    allowed = [before[k]]
                    if k == "n" and pre_n is not None:
                        allowed.append(pre_n)
                    if v not in allowed:
                        bad("pre_after_write", "pre_randomize of %s already sees %s=%r (before the call: %r): a field was written "
                            "before all pre callbacks ran" % (path, k, v, before[k]), {k: v}, {k: before[k]}, x.choices)
            else:
                for k, v in snap.items():
                    if v != after[k]:
                        bad("post_before_final", "post_randomize of %s sees %s=%r but the final value is %r" % (path, k, v, after[k]),
                            {k: v}, {k: after[k]}, x.choices)
        if pre_n is not None:
            if after["n"] != pre_n:
                bad("pre_assignment_lost", "pre_randomize assigned n=%r but n reads %r after the call" % (pre_n, after["n"]),
                    after["n"], pre_n, x.choices)
            if not after["a"] <= pre_n:
                bad("solver_missed_pre_assignment", "pre_randomize assigned n=%r but the result a=%r violates a <= n: the solver "
                    "used the value n had before pre_randomize" % (pre_n, after["a"]), after["a"], "a <= %r" % pre_n, x.choices)
        if not OT.constraints_hold(spec, after, "a!=3" if False else None):
            bad("constraints", "returned values %r violate the constraints" % (after,), after, "constraints hold", x.choices)
    cnt["states"] = len(outcomes)
    return {"cnt": cnt, "viol": viol}


def cases_for(tier):
    cases = []
    for spec in OT.all_specs(tier):
        if tier == "quick" and len(spec["cons"]) > 1:
            continue
        for call in CALLS:
            for pre_n in (None, 0, 1):
                if tier == "quick" and call != "randomize" and pre_n == 1:
                    continue
                sp = dict(spec)
                sp["pre_n"] = pre_n
                cases.append({"spec": sp, "call": call})
    return cases


def classify(v):
    return None


def run(res, only=None):
    cases = common.rotate(cases_for(res.tier), res.seed)
    out = common.pmap(run_case, cases)
    nontriv = 0
    for c, r in common.good(cases, out, res):
        cnt = r["cnt"]
        res.add("traces_validated_against_impl", cnt["executions"])
        res.add("transitions", cnt["transitions"])
        res.add("states", cnt["states"])
        res.add("evaluations", cnt["executions"])
        nontriv += cnt["nontrivial"]
        res.subcount("trees", "cases")
        res.subcount("trees", "failed_calls", cnt.get("failed_calls", 0))
        for v in r["viol"]:
            v["finding"] = classify(v)
            res.violation(v)
    res.cov["distinct_nontrivial"] = nontriv
    res.cov["rule"] = ("one case = (object tree, call kind, value assigned by pre_randomize); non-trivial if the tree has both "
                       "a sub-object that is random in the call and one that is not")
    res.cov["exhaustive"] = True
    res.sample({"tree": cases[0]["spec"], "call": cases[0]["call"]})
    res.sample({"tree": cases[len(cases) // 3]["spec"], "call": cases[len(cases) // 3]["call"]})


def replay(rec):
    c = rec["case"]
    spec = dict(c["spec"])
    spec["cons"] = tuple(spec.get("cons", ()))
    r = run_case({"spec": spec, "call": c["call"]})
    bad = [v for v in r["viol"] if v["subcheck"] == rec["subcheck"]]
    return (not bad), (bad[0]["what"] if bad else "holds")

"""C17 - pre_randomize / post_randomize run once each, before and after the solve.

All object trees of props/objtree.py (nested objects, lists of objects, random
and non-random members at every level) x call kinds (randomize,
randomize_with, free-standing vsc.randomize) x values assigned by the top
object's pre_randomize to a non-random field used in a constraint; every
environment-answer sequence with at most one non-default answer.  Every class
records (object, phase, snapshot of all field values).  Oracle:
  * the multiset of (object, phase) is exactly one 'pre' and one 'post' per
    object that is random in the call (top, random sub-objects, elements of a
    random list), none for a non-random sub-object or anything below it;
  * every pre event precedes every post event and sees the values the fields
    had before the call (no field has been written yet), apart from the
    assignments made by earlier pre callbacks;
  * the solver saw pre's assignment (result satisfies a <= n for the new n);
  * every post event sees the final values of all fields.
"""
import itertools

from mc import common
from mc.common import vsc, Script, SRandState, explore
from props import objtree as OT
from props import c08 as C08

PID = "C17"
CALLS = ("randomize", "randomize_with", "vsc.randomize")


def expected_events(spec):
    exp = {"top": 1}
    for p, (k, r) in OT.objects(spec).items():
        exp[p] = 1 if r else 0
    return exp


def run_case(case):
    spec = case["spec"]
    call = case["call"]
    cnt = {"executions": 0, "transitions": 0, "states": 0, "nontrivial": 0}
    viol = []
    expect = expected_events(spec)
    if any(v == 0 for v in expect.values()) and any(v == 1 for k, v in expect.items() if k != "top"):
        cnt["nontrivial"] = 1

    def bad(sub, what, obs, exp, choices):
        if len(viol) < 5:
            viol.append({"subcheck": sub, "case": {"spec": spec, "call": call, "choices": choices}, "observed": obs,
                         "expected": exp, "what": what})

    def run(s):
        top = OT.build(spec)
        # non-random parts hold values that satisfy the cross-level constraints more often
        ps = C08.presets(spec)
        OT.preset(top, spec, ps[-1])
        del OT.LOG[:]
        before = OT.snapshot(top)
        rs = SRandState(s)
        if call == "randomize":
            top.set_randstate(rs)
            out = common.outcome(top.randomize)
        elif call == "randomize_with":
            top.set_randstate(rs)

            def f():
                with top.randomize_with() as it:
                    it.a != 3
            out = common.outcome(f)
        else:
            out = common.outcome(lambda: vsc.randomize(top, randstate=rs))
        log = list(OT.LOG)
        del OT.LOG[:]
        return out, before, OT.snapshot(top), log
    st = {}
    outcomes = set()
    for x in explore(run, bound=1, cap=4000, state=st):
        out, before, after, log = x.obs
        cnt["executions"] += 1
        cnt["transitions"] += len(x.trace) + 1
        outcomes.add(tuple(sorted(after.items())))
        if out[0] == "solvefail":
            # some trees are unsatisfiable for the preset values of their non-random parts
            # (whether that verdict is right is C02/C08's business).  No field got a final value, so no
            # post_randomize may have run; pre_randomize still ran at most once per object
            cnt["failed_calls"] = cnt.get("failed_calls", 0) + 1
            posts = [p for p, ph, _ in log if ph == "post"]
            pres = [p for p, ph, _ in log if ph == "pre"]
            if posts or len(set(pres)) != len(pres):
                bad("callback_after_failed_call", "tree %r call %s ended with SolveFailure, yet post_randomize ran on %r "
                    "(pre_randomize on %r)" % (spec, call, posts, pres), {"post": posts, "pre": pres}, "no post_randomize", x.choices)
            continue
        if out[0] != "ok":
            bad("unexpected_exception", "call ended with %r" % (out,), list(out), "returns", x.choices)
            continue
        got = {}
        for path, phase, snap in log:
            got[(path, phase)] = got.get((path, phase), 0) + 1
        for p, n in expect.items():
            for ph in ("pre", "post"):
                g = got.get((p, ph), 0)
                if g != n:
                    bad("callback_count", "tree %r call %s: %s_randomize ran %d time(s) on %s, expected %d (%s)" % (
                        spec, call, ph, g, p, n, "random in the call" if n else "non-random sub-object or below one"),
                        {"object": p, "phase": ph, "count": g}, n, x.choices)
        phases = [ph for _, ph, _ in log]
        if "post" in phases and "pre" in phases[phases.index("post"):]:
            bad("order", "a pre_randomize ran after a post_randomize: %r" % ([(p, ph) for p, ph, _ in log],),
                [(p, ph) for p, ph, _ in log], "all pre before all post", x.choices)
        pre_n = spec.get("pre_n")
        for path, phase, snap in log:
            if phase == "pre":
                for k, v in snap.items():
                    allowed = [before[k]]
                    if k == "n" and pre_n is not None:
                        allowed.append(pre_n)
                    if v not in allowed:
                        bad("pre_after_write", "pre_randomize of %s already sees %s=%r (before the call: %r): a field was written "
                            "before all pre callbacks ran" % (path, k, v, before[k]), {k: v}, {k: before[k]}, x.choices)
            else:
                for k, v in snap.items():
                    if v != after[k]:
                        bad("post_before_final", "post_randomize of %s sees %s=%r but the final value is %r" % (path, k, v, after[k]),
                            {k: v}, {k: after[k]}, x.choices)
        if pre_n is not None:
            if after["n"] != pre_n:
                bad("pre_assignment_lost", "pre_randomize assigned n=%r but n reads %r after the call" % (pre_n, after["n"]),
                    after["n"], pre_n, x.choices)
            if not after["a"] <= pre_n:
                bad("solver_missed_pre_assignment", "pre_randomize assigned n=%r but the result a=%r violates a <= n: the solver "
                    "used the value n had before pre_randomize" % (pre_n, after["a"]), after["a"], "a <= %r" % pre_n, x.choices)
        if not OT.constraints_hold(spec, after, "a!=3" if False else None):
            bad("constraints", "returned values %r violate the constraints" % (after,), after, "constraints hold", x.choices)
    cnt["states"] = len(outcomes)
    return {"cnt": cnt, "viol": viol}


def partial_case(job):
    """random-size list of objects whose solved size may be smaller than the number of populated elements:
    post_randomize runs on the same objects as pre_randomize (each once), and certainly on every exposed element"""
    npop, sizes, call = job
    cnt = {"executions": 0, "transitions": 0, "states": 0, "nontrivial": 1}
    viol = []
    Leaf, Mid, Top = OT.mk_classes({"kind": "leaf", "m1": True, "m2": True})

    @vsc.randobj
    class Holder(object):
        def __init__(self):
            self.a = vsc.rand_bit_t(2)
            self.l = vsc.randsz_list_t(Leaf())
            for _ in range(npop):
                self.l.append(Leaf())

        @vsc.constraint
        def cs(self):
            self.l.size.inside(vsc.rangelist(*sizes))

        def pre_randomize(self):
            OT._log(self, "pre")

        def post_randomize(self):
            OT._log(self, "post")

    def run(s):
        OT.ROOT["top"] = None
        h = Holder()
        h._tag = "top"
        elems = [h.l[i] for i in range(npop)]
        for i, e in enumerate(elems):
            e._tag = "l[%d]" % i
        del OT.LOG[:]
        rs = SRandState(s)
        if call == "randomize":
            h.set_randstate(rs)
            out = common.outcome(h.randomize)
        elif call == "randomize_with":
            h.set_randstate(rs)

            def f():
                with h.randomize_with() as it:
                    it.a != 3
            out = common.outcome(f)
        else:
            out = common.outcome(lambda: vsc.randomize(h, randstate=rs))
        log = [(p, ph) for p, ph, _ in OT.LOG]
        del OT.LOG[:]
        return out, log, len(h.l), int(h.l.size)
    st = {}
    seen = set()
    for x in explore(run, bound=1, cap=3000, state=st):
        out, log, ln, sz = x.obs
        cnt["executions"] += 1
        cnt["transitions"] += len(x.trace) + 1
        seen.add((sz, tuple(log)))
        if out[0] != "ok":
            viol.append({"subcheck": "unexpected_exception", "case": {"partial": list(job), "choices": x.choices}, "observed": list(out),
                         "expected": "returns", "what": "random-size object list %r: call ended with %r" % (job, out)})
            continue
        got = {}
        for p, ph in log:
            got[(p, ph)] = got.get((p, ph), 0) + 1
        for i in range(npop):
            p = "l[%d]" % i
            pre, post = got.get((p, "pre"), 0), got.get((p, "post"), 0)
            need = 1 if i < sz else None
            if pre != post or pre > 1 or (need is not None and pre != need):
                if len(viol) < 5:
                    viol.append({"subcheck": "callback_count", "case": {"partial": list(job), "choices": x.choices},
                                 "observed": {"object": p, "pre": pre, "post": post, "size": sz}, "expected": "pre == post == 1 on exposed elements; pre == post elsewhere",
                                 "what": "random-size list of %d objects, sizes %r, call %s: solved size %d, element %s got pre_randomize x%d and "
                                         "post_randomize x%d" % (npop, sizes, call, sz, p, pre, post)})
        if got.get(("top", "pre"), 0) != 1 or got.get(("top", "post"), 0) != 1:
            viol.append({"subcheck": "callback_count", "case": {"partial": list(job), "choices": x.choices}, "observed": got.get(("top", "pre"), 0),
                         "expected": 1, "what": "holder callbacks ran %r" % ([got.get(("top", k), 0) for k in ("pre", "post")],)})
    cnt["states"] = len(seen)
    return {"cnt": cnt, "viol": viol[:5]}


def partial_jobs(tier):
    jobs = []
    for npop, sizes in [(2, [(1, 2)]), (3, [(1, 2)]), (3, [(0, 3)]), (2, [1]), (3, [(2, 3)])]:
        for call in CALLS:
            jobs.append((npop, sizes, call))
    return jobs


def cases_for(tier):
    cases = []
    for spec in OT.all_specs(tier):
        if tier == "quick" and len(spec["cons"]) > 1:
            continue
        for call in CALLS:
            for pre_n in (None, 0, 1):
                if tier == "quick" and call != "randomize" and pre_n == 1:
                    continue
                sp = dict(spec)
                sp["pre_n"] = pre_n
                cases.append({"spec": sp, "call": call})
    return cases


def classify(v):
    return None


def run(res, only=None):
    cases = common.rotate(cases_for(res.tier), res.seed)
    out = common.pmap(run_case, cases)
    nontriv = 0
    for c, r in common.good(cases, out, res):
        cnt = r["cnt"]
        res.add("traces_validated_against_impl", cnt["executions"])
        res.add("transitions", cnt["transitions"])
        res.add("states", cnt["states"])
        res.add("evaluations", cnt["executions"])
        nontriv += cnt["nontrivial"]
        res.subcount("trees", "cases")
        res.subcount("trees", "failed_calls", cnt.get("failed_calls", 0))
        for v in r["viol"]:
            v["finding"] = classify(v)
            res.violation(v)
    pj = common.rotate(partial_jobs(res.tier), res.seed)
    pout = common.pmap(partial_case, pj, chunk=1)
    for c, r in common.good(pj, pout, res):
        cnt = r["cnt"]
        res.add("traces_validated_against_impl", cnt["executions"])
        res.add("transitions", cnt["transitions"])
        res.add("states", cnt["states"])
        res.add("evaluations", cnt["executions"])
        nontriv += cnt["nontrivial"]
        res.subcount("partial_lists", "cases")
        for v in r["viol"]:
            v["finding"] = classify(v)
            res.violation(v)
    res.cov["distinct_nontrivial"] = nontriv
    res.cov["rule"] = ("one case = (object tree, call kind, value assigned by pre_randomize); non-trivial if the tree has both "
                       "a sub-object that is random in the call and one that is not")
    res.cov["exhaustive"] = True
    res.sample({"tree": cases[0]["spec"], "call": cases[0]["call"]})
    res.sample({"tree": cases[len(cases) // 3]["spec"], "call": cases[len(cases) // 3]["call"]})


def replay(rec):
    c = rec["case"]
    if c.get("partial"):
        j = c["partial"]
        r = partial_case((j[0], [tuple(e) if isinstance(e, list) else e for e in j[1]], j[2]))
        bad = [v for v in r["viol"] if v["subcheck"] == rec["subcheck"]]
        return (not bad), (bad[0]["what"] if bad else "holds")
    spec = dict(c["spec"])
    spec["cons"] = tuple(spec.get("cons", ()))
    r = run_case({"spec": spec, "call": c["call"]})
    bad = [v for v in r["viol"] if v["subcheck"] == rec["subcheck"]]
    return (not bad), (bad[0]["what"] if bad else "holds")

"""C11 - cross bins count joint hits of their coverpoints.

All crosses of 2..3 coverpoints over bit(2) fields with the bin layouts
{two single bins, bin array, array behind a single bin (flat index offset),
single bin behind an array, auto-bins, partial coverage (values outside every
bin)} x iff on the cross and on each coverpoint (field / lambda): every single
sample (all value tuples x all iff tuples) from a fresh covergroup, and all
sample sequences of length <= 3 over a menu containing miss-all samples and
gated-off samples (a hit right after a gated-off or missing sample).
Oracle: one cross bin per combination of coverpoint bins, ordered row-major
and named after them; exactly the bin of the hit combination +1 iff the
cross's iff and every coverpoint's iff hold and every coverpoint hit a bin.
"""
import itertools

from mc import common, cov
from mc.common import vsc

PID = "C11"

LAYOUTS = {
    "two_single": [['lo', 'bin', 0, 1], ['hi', 'bin', 2, 3]],
    "array": [['a', 'arr', None, [0, 3]]],
    "single_then_array": [['s', 'bin', 0], ['a', 'arr', None, [1, 3]]],
    "array_then_single": [['a', 'arr', None, [0, 1]], ['s', 'bin', [2, 3]]],
    "partial": [['p', 'bin', 1], ['q', 'bin', 3]],
    "counted": [['c', 'arr', 2, [0, 3]]],
    "auto": None,
    # collections (partitioned / multi-range arrays) that some values miss
    "partial_counted": [['c', 'arr', 2, [0, 2]]],
    "partial_multi": [['m', 'arr', None, 0, 2]],
    # one-bin-per-value array whose first entry is a range (a multi-bin child before further values)
    "range_then_value": [['a', 'arr', None, [0, 1], 3]],
    # a wildcard bin declared before an ordinary bin, and one that leaves values outside every bin
    "wild_then_bin": [['w', 'wild', (2, 2)], ['lo', 'bin', [0, 1]]],
    "wild_partial": [['w', 'wild', (3, 3)], ['z', 'bin', 0]],
}


def specs(tier):
    out = []
    names = list(LAYOUTS)
    for l0, l1 in itertools.product(names, repeat=2):
        for iffs in [(None, None, None), ('field', None, None), (None, 'field', 'field'), ('lambda', 'lambda', None), ('field', 'field', 'lambda')]:
            if tier == "quick" and iffs[0] == 'lambda' and (names.index(l0) + names.index(l1)) % 2:
                continue
            xiff, i0, i1 = iffs
            sp = {'cps': [{'type': ('bit', 2), 'bins': LAYOUTS[l0], 'iff': i0}, {'type': ('bit', 2), 'bins': LAYOUTS[l1], 'iff': i1}],
                  'crosses': [['x01', [0, 1], xiff]]}
            if iffs[0] is None and iffs[1] is None:
                # a second cross of the same arity over the same coverpoints in the other order (another shape)
                sp['crosses'] = [['x01', [0, 1], None], ['x10', [1, 0], None]]
            out.append(sp)
    for l0, l1, l2 in ([("two_single", "array", "partial"), ("single_then_array", "auto", "two_single"),
                        ("partial", "partial", "array_then_single"), ("counted", "two_single", "two_single")]):
        for iffs in [(None, None, None, None), ('field', 'field', None, 'field')]:
            sp = {'cps': [{'type': ('bit', 2), 'bins': LAYOUTS[l0], 'iff': iffs[1]}, {'type': ('bit', 2), 'bins': LAYOUTS[l1], 'iff': iffs[2]},
                          {'type': ('bit', 2), 'bins': LAYOUTS[l2], 'iff': iffs[3]}],
                  'crosses': [['x012', [0, 1, 2], iffs[0]], ['x02', [0, 2], None]]}
            out.append(sp)
    return out


def bin_index(bins, v):
    for i, b in enumerate(bins):
        if v in b:
            return i
    return None


def run_case(spec):
    from vsc.impl.coverage_registry import CoverageRegistry
    cnt = {"executions": 0, "transitions": 0, "states": 0, "nontrivial": 1}
    viol = []
    cps = spec['cps']
    ncp = len(cps)
    refb = [cov.ref_bins(cp)[0] for cp in cps]

    def bad(sub, what, obs, exp, seq):
        if len(viol) < 4:
            viol.append({"subcheck": sub, "case": {"spec": spec, "seq": seq}, "observed": obs, "expected": exp,
                         "what": "cross over layouts %r: %s" % ([[b[0] for b in (cp['bins'] or [['auto']])] for cp in cps], what)})

    type_diff = []

    def fresh():
        CoverageRegistry.clear()
        cg = cov.build_cg(spec)()
        return cg, cg.get_model()

    def expected(seq):
        out = []
        for cr in spec['crosses']:
            idxs = cr[1]
            dims = [len(refb[k]) for k in idxs]
            n = 1
            for d in dims:
                n *= d
            h = [0] * n
            j = spec['crosses'].index(cr)
            for vals, ens, enx in seq:
                if len(cr) > 2 and cr[2] and not enx[j]:
                    continue
                ok = True
                key = 0
                for k, d in zip(idxs, dims):
                    if cps[k].get('iff') and not ens[k]:
                        ok = False
                        break
                    bi = bin_index(refb[k], vals[k])
                    if bi is None:
                        ok = False
                        break
                    key = key * d + bi
                if ok:
                    h[key] += 1
            out.append(h)
        return out

    def observe(seq):
        cg, m = fresh()
        for vals, ens, enx in seq:
            cg.sample(*cov.sample_args(spec, vals, ens, enx))
        cnt["executions"] += 1
        cnt["transitions"] += len(seq)
        inst = [[cr.get_bin_hits(i) for i in range(cr.get_n_bins())] for cr in m.cross_l]
        # the type-level copy of the covergroup (what reports show) counts the same joint hits: one instance only
        t = m.type_cg
        if t is not None and t is not m:
            tl = [[cr.get_bin_hits(i) for i in range(cr.get_n_bins())] for cr in t.cross_l]
            if tl != inst and not type_diff:
                type_diff.append((list(map(list, seq)), inst, tl))
        return inst, m
    # structure and names
    got0, m = observe([])
    for j, cr in enumerate(spec['crosses']):
        crm = m.cross_l[j]
        dims = [len(refb[k]) for k in cr[1]]
        n = 1
        for d in dims:
            n *= d
        if crm.get_n_bins() != n:
            bad("cross_bin_count", "cross %s has %d bins, the product of its coverpoints' bins is %d" % (cr[0], crm.get_n_bins(), n),
                crm.get_n_bins(), n, [])
            return {"cnt": cnt, "viol": viol}
        cpn = [cov.cp_names(m.coverpoint_l[k]) for k in cr[1]]
        for i, combo in enumerate(itertools.product(*[range(d) for d in dims])):
            nm = crm.get_bin_name(i)
            pos = 0
            okn = True
            for k, bi in enumerate(combo):
                f = nm.find(cpn[k][bi], pos)
                if f < 0:
                    okn = False
                    break
                pos = f + len(cpn[k][bi])
            if not okn:
                bad("cross_bin_name", "cross bin %d is named %r; expected the names %r of its coverpoint bins in order" % (
                    i, nm, [cpn[k][bi] for k, bi in enumerate(combo)]), nm, [cpn[k][bi] for k, bi in enumerate(combo)], [])
                break
    # every single sample
    ens_opts = list(itertools.product((True, False), repeat=ncp))
    ens_opts = [e for e in ens_opts if all(e[k] or cps[k].get('iff') for k in range(ncp))]
    enx_opts = list(itertools.product((True, False), repeat=len(spec['crosses'])))
    enx_opts = [e for e in enx_opts if all(e[j] or (len(spec['crosses'][j]) > 2 and spec['crosses'][j][2]) for j in range(len(e)))]
    seen = set()
    for vals in itertools.product(range(4), repeat=ncp):
        for ens in ens_opts:
            for enx in enx_opts:
                seq = [(vals, ens, enx)]
                got, _ = observe(seq)
                exp = expected(seq)
                seen.add(repr(got))
                if got != exp:
                    bad("single_sample", "sample values %r (coverpoint iff %r, cross iff %r) gives cross counters %r, expected %r" % (
                        vals, ens, enx, got, exp), got, exp, [[list(vals), list(ens), list(enx)]])
    # sequences over a menu: two hits, a miss-all (if any value is outside every bin), gated-off samples
    menu = []
    allT = tuple([True] * ncp)
    xT = tuple([True] * len(spec['crosses']))
    menu.append((tuple([0] * ncp), allT, xT))
    menu.append((tuple([3] * ncp), allT, xT))
    menu.append((tuple([1, 2, 1][:ncp]), allT, xT))
    miss = None
    for k in range(ncp):
        mv = [v for v in range(4) if bin_index(refb[k], v) is None]
        if mv:
            t = [1] * ncp
            t[k] = mv[0]
            miss = tuple(t)
    if miss:
        menu.append((miss, allT, xT))
    for k in range(ncp):
        if cps[k].get('iff'):
            e = list(allT)
            e[k] = False
            menu.append((tuple([3] * ncp), tuple(e), xT))
            break
    if any(len(cr) > 2 and cr[2] for cr in spec['crosses']):
        menu.append((tuple([3] * ncp), allT, tuple([False] * len(spec['crosses']))))
    for n in (2, 3):
        for seq in itertools.product(menu, repeat=n):
            seq = list(seq)
            got, _ = observe(seq)
            exp = expected(seq)
            seen.add(repr(got))
            if got != exp:
                bad("sequence", "samples %r give cross counters %r, expected %r" % (seq, got, exp), got, exp,
                    [[list(a), list(b), list(c)] for a, b, c in seq])
                break
    cnt["states"] = len(seen)
    if type_diff:
        sq, inst, tl = type_diff[0]
        bad("type_level_cross", "after samples %r the instance's cross counters are %r but the type-level cross (single instance) "
            "holds %r" % (sq, inst, tl), tl, inst, [[list(a), list(b), list(c)] for a, b, c in sq])
    CoverageRegistry.clear()
    return {"cnt": cnt, "viol": viol}


def classify(v):
    return None


def run(res, only=None):
    cases = common.rotate(specs(res.tier), res.seed)
    out = common.pmap(run_case, cases, chunk=1)
    for c, r in common.good(cases, out, res):
        cnt = r["cnt"]
        res.add("traces_validated_against_impl", cnt["executions"])
        res.add("transitions", cnt["transitions"])
        res.add("states", cnt["states"])
        res.add("evaluations", cnt["executions"])
        res.add("distinct_nontrivial", cnt["nontrivial"])
        res.subcount("cross", "covergroups")
        for v in r["viol"]:
            v["finding"] = classify(v)
            res.violation(v)
    res.cov["rule"] = "one case = one covergroup with 1-2 crosses; every case has at least 4 cross bins and samples that hit, miss and are gated off"
    res.cov["exhaustive"] = True
    res.sample({"layouts": [[b[0] for b in (cp['bins'] or [['auto']])] for cp in cases[0]['cps']], "crosses": cases[0]['crosses']})


def replay(rec):
    spec = rec["case"]["spec"]
    for cp in spec['cps']:
        cp['type'] = tuple(cp['type'])
    r = run_case(spec)
    bad = [v for v in r["viol"] if v["subcheck"] == rec["subcheck"]]
    return (not bad), (bad[0]["what"] if bad else "cross counters match")

"""C18 - field values stay within their declared type on every access path.

Exhaustive enumeration of (width, signedness, written value, write path, read
path) on the real facade objects, compared with a two's-complement value model.
No solver, no random draws: the explored space is the input space itself.
"""
import enum
import itertools

from mc import common
from mc.common import vsc

# ---------------------------------------------------------------------------
# reference model
# ---------------------------------------------------------------------------


def wrap(v, w, signed):
    v &= (1 << w) - 1
    if signed and (v >> (w - 1)) & 1:
        v -= (1 << w)
    return v


def in_type(v, w, signed):
    if signed:
        return -(1 << (w - 1)) <= v <= (1 << (w - 1)) - 1
    return 0 <= v <= (1 << w) - 1


def psel_write(old, w, signed, hi, lo, v):
    m = ((1 << (hi - lo + 1)) - 1) << lo
    bits = old & ((1 << w) - 1)
    bits = (bits & ~m) | ((v << lo) & m)
    return wrap(bits, w, signed)


def psel_read(old, hi, lo):
    return (old >> lo) & ((1 << (hi - lo + 1)) - 1)


def value_menu(w):
    """All integers in [-2^(w+1), 2^(w+1)] for w<=10, else a boundary menu."""
    if w <= 10:
        return list(range(-(1 << (w + 1)), (1 << (w + 1)) + 1))
    W = 1 << w
    H = 1 << (w - 1)
    base = [0, 1, 2, -1, -2, H - 1, H, H + 1, W - 1, W, W + 1, -H, -H - 1, -H + 1,
            -W, -W - 1, -W + 1, 2 * W - 1, 2 * W, -2 * W, 3 * H, -3 * H,
            0xA5A5A5A5A5A5A5A5A5 & (4 * W - 1), -(0x5A5A5A5A5A5A5A5A5A & (4 * W - 1))]
    return sorted(set(base))


# ---------------------------------------------------------------------------
# facade construction
# ---------------------------------------------------------------------------

def mkobj(w, signed, init=0):
    T = vsc.int_t if signed else vsc.bit_t
    RT = vsc.rand_int_t if signed else vsc.rand_bit_t

    @vsc.randobj
    class Holder(object):
        def __init__(self):
            self.f = T(w, i=init)
            self.r = RT(w, i=init)
            self.at = vsc.attr(T(w, i=init))
            self.l = vsc.list_t(T(w))
            self.rl = vsc.rand_list_t(T(w))
    return Holder()


SCALAR_WRITES = ("attr", "set_val", "val")
SCALAR_READS = ("attr", "get_val", "val")


def s_write(o, name, path, v):
    if path == "attr":
        setattr(o, name, v)
    else:
        with vsc.raw_mode():
            fo = getattr(o, name)
        if path == "set_val":
            fo.set_val(v)
        else:
            fo.val = v


def s_read(o, name, path):
    if path == "attr":
        return int(getattr(o, name))
    with vsc.raw_mode():
        fo = getattr(o, name)
    if path == "get_val":
        return int(fo.get_val())
    return int(fo.val)


def do_scalar(job):
    """One (w, signed): every value x write path x read path, on member
    fields (non-rand, rand, attr-wrapped) and on a stand-alone field; then
    every ordered pair of writes over a reduced value menu."""
    w, signed = job
    viol = []
    cnt = {"transitions": 0, "evaluations": 0}
    states = set()
    vals = value_menu(w)

    def bad(sub, case, obs, exp):
        if len(viol) < 30:
            viol.append({"subcheck": sub, "case": case, "observed": obs, "expected": exp,
                         "what": "%s: %s -> read %r, two's-complement model says %r" % (sub, case, obs, exp)})

    o = mkobj(w, signed)
    T = vsc.int_t if signed else vsc.bit_t
    sa = T(w)
    for v in vals:
        exp = wrap(v, w, signed)
        for name in ("f", "r", "at"):
            for wp in SCALAR_WRITES:
                s_write(o, name, wp, v)
                cnt["transitions"] += 1
                for rp in SCALAR_READS:
                    got = s_read(o, name, rp)
                    cnt["evaluations"] += 1
                    states.add(got)
                    if got != exp:
                        bad("scalar_member", {"w": w, "signed": signed, "field": name, "write": wp,
                                              "read": rp, "v": v}, got, exp)
        # stand-alone field
        for wp in ("set_val", "val"):
            if wp == "set_val":
                sa.set_val(v)
            else:
                sa.val = v
            cnt["transitions"] += 1
            for rp in ("get_val", "val"):
                got = int(sa.get_val()) if rp == "get_val" else int(sa.val)
                cnt["evaluations"] += 1
                if got != exp:
                    bad("scalar_standalone", {"w": w, "signed": signed, "write": wp, "read": rp, "v": v},
                        got, exp)
    # constructor initial values (a fresh class/object per value: reduced menu above w=6)
    ivals = vals if w <= 6 else value_menu(11 if w <= 10 else w)
    if w <= 10 and w > 6:
        W = 1 << w
        H = 1 << (w - 1)
        ivals = sorted(set([0, 1, -1, H - 1, H, H + 1, W - 1, W, W + 1, -H, -H - 1, -W, -W - 1, 2 * W - 1]))
    for v in ivals:
        exp = wrap(v, w, signed)
        oi = mkobj(w, signed, init=v)
        cnt["transitions"] += 1
        for name in ("f", "r", "at"):
            for rp in SCALAR_READS:
                got = s_read(oi, name, rp)
                cnt["evaluations"] += 1
                if got != exp:
                    bad("ctor_init", {"w": w, "signed": signed, "field": name, "read": rp, "v": v}, got, exp)
        sai = T(w, i=v)
        got = int(sai.get_val())
        cnt["evaluations"] += 1
        if got != exp:
            bad("ctor_init_standalone", {"w": w, "signed": signed, "v": v}, got, exp)
    # two writes in a row (stale state): reduced menu
    W = 1 << w
    H = 1 << (w - 1)
    m2 = sorted(set([0, 1, -1, H - 1, H, W - 1, W, -H, -H - 1, W + 1]))
    for v1, v2 in itertools.product(m2, m2):
        for wp1, wp2 in itertools.product(SCALAR_WRITES, SCALAR_WRITES):
            s_write(o, "f", wp1, v1)
            s_write(o, "f", wp2, v2)
            cnt["transitions"] += 2
            got = s_read(o, "f", "attr")
            cnt["evaluations"] += 1
            exp = wrap(v2, w, signed)
            if got != exp:
                bad("two_writes", {"w": w, "signed": signed, "writes": [[wp1, v1], [wp2, v2]]}, got, exp)
    # += / -= through attribute access (read-modify-write across the facade)
    for v in m2:
        s_write(o, "f", "attr", v)
        o.f += 1
        cnt["transitions"] += 2
        got = s_read(o, "f", "attr")
        exp = wrap(wrap(v, w, signed) + 1, w, signed)
        cnt["evaluations"] += 1
        if got != exp:
            bad("pluseq", {"w": w, "signed": signed, "v": v}, got, exp)
        s_write(o, "f", "attr", v)
        o.f -= 1
        got = s_read(o, "f", "attr")
        exp = wrap(wrap(v, w, signed) - 1, w, signed)
        cnt["evaluations"] += 1
        if got != exp:
            bad("minuseq", {"w": w, "signed": signed, "v": v}, got, exp)
    return {"viol": viol, "cnt": cnt, "states": len(states), "job": [w, signed]}


def do_list(job):
    """One (w, signed): list write paths x read paths."""
    w, signed = job
    viol = []
    cnt = {"transitions": 0, "evaluations": 0}
    states = set()
    vals = value_menu(w)
    T = vsc.int_t if signed else vsc.bit_t

    def bad(sub, case, obs, exp):
        if len(viol) < 30:
            viol.append({"subcheck": sub, "case": case, "observed": obs, "expected": exp,
                         "what": "%s: %s -> read %r, model says %r" % (sub, case, obs, exp)})

    def reads(o, lname, k):
        l = getattr(o, lname)
        return {"index": int(l[k]), "iter": [int(x) for x in l][k]}

    o = mkobj(w, signed)
    for lname in ("l", "rl"):
        l = getattr(o, lname)
        l.append(0)
        l.append(0)
        for v in vals:
            exp = wrap(v, w, signed)
            # index assignment
            l[1] = v
            cnt["transitions"] += 1
            for rp, got in reads(o, lname, 1).items():
                cnt["evaluations"] += 1
                states.add(got)
                if got != exp:
                    bad("list_setitem", {"w": w, "signed": signed, "list": lname, "read": rp, "v": v}, got, exp)
            # append
            l.append(v)
            cnt["transitions"] += 1
            k = len(l) - 1
            if k != 2:
                bad("list_len", {"w": w, "signed": signed, "list": lname, "after": "append"}, k + 1, 3)
            for rp, got in reads(o, lname, k).items():
                cnt["evaluations"] += 1
                if got != exp:
                    bad("list_append", {"w": w, "signed": signed, "list": lname, "read": rp, "v": v}, got, exp)
            # whole-list assignment (clears and re-appends through __setattr__)
            setattr(o, lname, [0, v])
            cnt["transitions"] += 1
            l = getattr(o, lname)
            if len(l) != 2:
                bad("list_len", {"w": w, "signed": signed, "list": lname, "after": "assign"}, len(l), 2)
            for rp, got in reads(o, lname, 1).items():
                cnt["evaluations"] += 1
                if got != exp:
                    bad("list_assign", {"w": w, "signed": signed, "list": lname, "read": rp, "v": v}, got, exp)
        # extend with a block of values
        blk = vals[:: max(1, len(vals) // 64)]
        setattr(o, lname, [])
        l = getattr(o, lname)
        l.extend(blk)
        cnt["transitions"] += 1
        got = [int(x) for x in l]
        got2 = [int(l[i]) for i in range(len(l))]
        exp = [wrap(v, w, signed) for v in blk]
        cnt["evaluations"] += 2
        if got != exp:
            bad("list_extend", {"w": w, "signed": signed, "list": lname, "read": "iter", "v": blk[:8]}, got[:8], exp[:8])
        if got2 != exp:
            bad("list_extend", {"w": w, "signed": signed, "list": lname, "read": "index", "v": blk[:8]}, got2[:8], exp[:8])
    # init= of list_t
    blk = vals[:: max(1, len(vals) // 32)]

    @vsc.randobj
    class LI(object):
        def __init__(self):
            self.l = vsc.list_t(T(w), init=blk)
    oi = LI()
    got = [int(x) for x in oi.l]
    exp = [wrap(v, w, signed) for v in blk]
    cnt["evaluations"] += 1
    cnt["transitions"] += 1
    if got != exp:
        bad("list_init", {"w": w, "signed": signed, "v": blk[:8]}, got[:8], exp[:8])
    return {"viol": viol, "cnt": cnt, "states": len(states), "job": [w, signed]}


def do_psel(job):
    """One (w, signed): every (hi,lo), every stored value, every written
    slice value; reads on member (through the value) and stand-alone fields."""
    w, signed = job
    viol = []
    cnt = {"transitions": 0, "evaluations": 0}
    states = set()
    T = vsc.int_t if signed else vsc.bit_t

    def bad(sub, case, obs, exp):
        if len(viol) < 30:
            viol.append({"subcheck": sub, "case": case, "observed": obs, "expected": exp,
                         "what": "%s: %s -> %r, model says %r" % (sub, case, obs, exp)})

    o = mkobj(w, signed)
    sa = T(w)
    dom = range(-(1 << (w - 1)), 1 << (w - 1)) if signed else range(1 << w)
    for old in dom:
        o.f = old
        for hi in range(w):
            for lo in range(hi + 1):
                expr = psel_read(old, hi, lo)
                # member field: obj.f[hi:lo] goes through the returned value
                o.f = old
                got = int(o.f[hi:lo])
                cnt["evaluations"] += 1
                if got != expr:
                    bad("psel_read_member", {"w": w, "signed": signed, "old": old, "hi": hi, "lo": lo}, got, expr)
                sa.set_val(old)
                got = int(sa[hi:lo])
                cnt["evaluations"] += 1
                if got != expr:
                    bad("psel_read_standalone", {"w": w, "signed": signed, "old": old, "hi": hi, "lo": lo}, got, expr)
                sw = hi - lo + 1
                # values that fit the slice, values wider than the slice and negative ones
                for v in list(range(0, (1 << sw))) + [(1 << sw), (1 << sw) + 1, (1 << (sw + 1)) - 1, (1 << w) - 1, -1, -2]:
                    sa.set_val(old)
                    sa[hi:lo] = v
                    cnt["transitions"] += 1
                    got = int(sa.get_val())
                    exp = psel_write(old, w, signed, hi, lo, v)
                    cnt["evaluations"] += 1
                    states.add((got,))
                    if got != exp:
                        bad("psel_write", {"w": w, "signed": signed, "old": old, "hi": hi, "lo": lo, "v": v}, got, exp)
                    # raw-mode access to a member field is the same facade object
                    with vsc.raw_mode():
                        fo = o.f
                    fo.set_val(old)
                    fo[hi:lo] = v
                    got = int(o.f)
                    cnt["evaluations"] += 1
                    if got != exp:
                        bad("psel_write_member", {"w": w, "signed": signed, "old": old, "hi": hi, "lo": lo, "v": v}, got, exp)
        o.f = old
        for b in range(w):
            expb = (old >> b) & 1
            got = int(o.f[b])
            cnt["evaluations"] += 1
            if got != expb:
                bad("bit_read_member", {"w": w, "signed": signed, "old": old, "bit": b}, got, expb)
            sa.set_val(old)
            got = int(sa[b])
            cnt["evaluations"] += 1
            if got != expb:
                bad("bit_read_standalone", {"w": w, "signed": signed, "old": old, "bit": b}, got, expb)
            for v in (0, 1):
                sa.set_val(old)
                sa[b] = v
                cnt["transitions"] += 1
                got = int(sa.get_val())
                exp = psel_write(old, w, signed, b, b, v)
                cnt["evaluations"] += 1
                if got != exp:
                    bad("bit_write", {"w": w, "signed": signed, "old": old, "bit": b, "v": v}, got, exp)
    return {"viol": viol, "cnt": cnt, "states": len(states), "job": [w, signed]}


class E1(enum.IntEnum):
    A = 0
    B = 3
    C = -2
    D = 9


class E2(enum.Enum):
    P = 5
    Q = 1
    R = -7


class E3(enum.IntFlag):
    X = 1
    Y = 2
    Z = 8


def do_enum(job):
    viol = []
    cnt = {"transitions": 0, "evaluations": 0}
    states = set()

    def bad(sub, case, obs, exp):
        if len(viol) < 30:
            viol.append({"subcheck": sub, "case": case, "observed": repr(obs), "expected": repr(exp),
                         "what": "%s: %s -> %r, expected %r" % (sub, case, obs, exp)})

    for E in (E1, E2, E3):
        members = list(E)
        for init in [None] + members:
            @vsc.randobj
            class H(object):
                def __init__(self):
                    self.e = vsc.enum_t(E) if init is None else vsc.enum_t(E, i=init)
                    self.re = vsc.rand_enum_t(E) if init is None else vsc.rand_enum_t(E, i=init)
                    self.l = vsc.list_t(vsc.enum_t(E))
            o = H()
            cnt["transitions"] += 1
            for name in ("e", "re"):
                got = getattr(o, name)
                cnt["evaluations"] += 1
                if not (isinstance(got, E) and got in members):
                    bad("enum_initial", {"enum": E.__name__, "field": name, "init": str(init)}, got, "a declared enumerator")
                # (whether i= of an enum field is honoured is not part of the
                # statement: the field holds *a* declared enumerator either way)
            for m1 in members:
                for m2 in members:
                    for name in ("e", "re"):
                        setattr(o, name, m1)
                        setattr(o, name, m2)
                        cnt["transitions"] += 2
                        got = getattr(o, name)
                        with vsc.raw_mode():
                            fo = getattr(o, name)
                        got2 = fo.get_val()
                        cnt["evaluations"] += 2
                        states.add((E.__name__, str(got)))
                        if got is not m2:
                            bad("enum_set", {"enum": E.__name__, "field": name, "writes": [str(m1), str(m2)], "read": "attr"}, got, m2)
                        if got2 is not m2:
                            bad("enum_set", {"enum": E.__name__, "field": name, "writes": [str(m1), str(m2)], "read": "get_val"}, got2, m2)
            # enum list: append / setitem / index
            for m1 in members:
                o.l.append(m1)
                cnt["transitions"] += 1
                got = o.l[len(o.l) - 1]
                cnt["evaluations"] += 1
                if got is not m1:
                    bad("enum_list_append", {"enum": E.__name__, "v": str(m1)}, got, m1)
                for m2 in members:
                    o.l[0] = m2
                    cnt["transitions"] += 1
                    got = o.l[0]
                    cnt["evaluations"] += 1
                    if got is not m2:
                        bad("enum_list_setitem", {"enum": E.__name__, "v": str(m2)}, got, m2)
    return {"viol": viol, "cnt": cnt, "states": len(states), "job": ["enum"]}


def do_randlist(job):
    """signed / unsigned random lists read after a randomize() that pins every element (the solver writes the
    values back): index and iteration must agree and stay inside the element type"""
    w, signed = job
    viol = []
    cnt = {"transitions": 0, "evaluations": 0}
    states = set()
    T = vsc.int_t if signed else vsc.bit_t
    lo, hi = (-(1 << (w - 1)), (1 << (w - 1)) - 1) if signed else (0, (1 << w) - 1)

    @vsc.randobj
    class RL(object):
        def __init__(self):
            self.l = vsc.rand_list_t(T(w), 2)
            self.s = (vsc.rand_int_t if signed else vsc.rand_bit_t)(w)
    o = RL()
    menu = list(range(lo, hi + 1)) if w <= 4 else sorted(set([lo, lo + 1, -1 if signed else 1, 0, 1, hi - 1, hi]))
    for a in menu:
        for b in (menu if w <= 3 else [menu[0], menu[-1], 0]):
            try:
                with common.silenced():
                    with o.randomize_with() as it:
                        it.l[0] == a
                        it.l[1] == b
                        it.s == a
            except Exception as e:
                viol.append({"subcheck": "randlist_call", "case": {"w": w, "signed": signed, "v": [a, b]}, "observed": type(e).__name__,
                             "expected": "returns", "what": "randomize_with pinning list elements to %r raised %s" % ([a, b], type(e).__name__)})
                continue
            cnt["transitions"] += 1
            got_i = [int(o.l[0]), int(o.l[1])]
            got_t = [int(x) for x in o.l]
            got_s = int(o.s)
            cnt["evaluations"] += 3
            states.add(tuple(got_i))
            if got_i != [a, b] or got_t != [a, b] or got_s != a:
                if len(viol) < 10:
                    viol.append({"subcheck": "randlist_read", "case": {"w": w, "signed": signed, "v": [a, b]},
                                 "observed": {"index": got_i, "iter": got_t, "scalar": got_s}, "expected": [a, b],
                                 "what": "after a call that pins the elements to %r: indexing reads %r, iteration %r, scalar field %r" % (
                                     [a, b], got_i, got_t, got_s)})
    return {"viol": viol, "cnt": cnt, "states": len(states), "job": [w, signed]}


def _dispatch(job):
    kind = job[0]
    fn = {"scalar": do_scalar, "list": do_list, "psel": do_psel, "enum": do_enum, "randlist": do_randlist}[kind]
    r = fn(job[1:])
    r["kind"] = kind
    return r


# ---------------------------------------------------------------------------
# known-finding classifiers (selector + predicted deviation)
# ---------------------------------------------------------------------------

def classify(v):
    return None


def run(res, only=None):
    tier = res.tier
    jobs = []
    if tier == "quick":
        ex_w = range(1, 9)
        wide = [11, 16, 31, 32, 33, 63, 64]
        psel_w = range(1, 6)
    else:
        ex_w = range(1, 11)
        wide = list(range(11, 65))
        psel_w = range(1, 8)
    for w in list(ex_w) + wide:
        for s in (False, True):
            jobs.append(("scalar", w, s))
            jobs.append(("list", w, s))
    for w in psel_w:
        for s in (False, True):
            jobs.append(("psel", w, s))
    jobs.append(("enum",))
    for w in ((2, 3, 4, 8) if tier == "quick" else (1, 2, 3, 4, 5, 8, 16, 32)):
        for sg in (False, True):
            jobs.append(("randlist", w, sg))
    if only:
        jobs = [j for j in jobs if j[0] == only]
    jobs = common.rotate(jobs, res.seed)
    # biggest first for balance
    jobs.sort(key=lambda j: -(j[1] if len(j) > 1 and j[1] <= 10 else 0))
    out = common.pmap(_dispatch, jobs, chunk=1)
    nontriv = 0
    for _j, r in common.good(jobs, out, res):
        res.add("transitions", r["cnt"]["transitions"])
        res.add("evaluations", r["cnt"]["evaluations"])
        res.add("traces_validated_against_impl", r["cnt"]["transitions"])
        res.add("states", r["states"])
        res.subcount(r["kind"], "jobs")
        res.subcount(r["kind"], "evaluations", r["cnt"]["evaluations"])
        if r["states"] >= 2:
            nontriv += 1
        for v in r["viol"]:
            v["finding"] = classify(v)
            res.violation(v)
    res.cov["distinct_nontrivial"] = nontriv
    res.cov["rule"] = ("one case = (kind, width, signedness) with all written values x write paths x read paths; "
                       "non-trivial if at least two distinct stored values were observed")
    res.cov["exhaustive"] = True
    res.cov["bounds"] = {
        "exhaustive_widths": [min(ex_w), max(ex_w)], "values": "every integer in [-2^(w+1), 2^(w+1)]",
        "wide_widths": wide, "wide_values": "boundary menu (declared non-exhaustive in the value dimension)",
        "partselect_widths": [min(psel_w), max(psel_w)],
    }
    res.sample({"kind": "scalar", "w": 3, "signed": True, "write": "attr", "v": -9, "expected_read": wrap(-9, 3, True)})
    res.sample({"kind": "psel", "w": 4, "old": 10, "hi": 1, "lo": 0, "v": 3, "expected": psel_write(10, 4, False, 1, 0, 3)})
    res.assumptions.append("two's-complement value model written from the property statement")


def replay(rec):
    sub = rec["subcheck"]
    c = rec["case"]
    common.quiet()
    if sub.startswith("scalar_member") or sub in ("two_writes",):
        w, s = c["w"], c["signed"]
        o = mkobj(w, s)
        if sub == "two_writes":
            for wp, v in c["writes"]:
                s_write(o, "f", wp, v)
            got = s_read(o, "f", "attr")
            exp = wrap(c["writes"][-1][1], w, s)
        else:
            s_write(o, c["field"], c["write"], c["v"])
            got = s_read(o, c["field"], c["read"])
            exp = wrap(c["v"], w, s)
        return got == exp, "read %r expected %r" % (got, exp)
    if sub in ("psel_write", "bit_write"):
        w, s = c["w"], c["signed"]
        T = vsc.int_t if s else vsc.bit_t
        sa = T(w)
        sa.set_val(c["old"])
        if sub == "psel_write":
            sa[c["hi"]:c["lo"]] = c["v"]
            exp = psel_write(c["old"], w, s, c["hi"], c["lo"], c["v"])
        else:
            sa[c["bit"]] = c["v"]
            exp = psel_write(c["old"], w, s, c["bit"], c["bit"], c["v"])
        got = int(sa.get_val())
        return got == exp, "read %r expected %r" % (got, exp)
    # generic: re-run the whole job the case belongs to and look for the same case
    kind = {"scalar": "scalar", "ctor": "scalar", "plus": "scalar", "minu": "scalar", "list": "list",
            "psel": "psel", "bit_": "psel", "enum": "enum", "rand": "randlist"}[sub[:4]]
    job = (kind,) if kind == "enum" else (kind, c["w"], c["signed"])
    r = _dispatch(job)
    for v in r["viol"]:
        if v["subcheck"] == sub and v["case"] == c:
            return False, v["what"]
    hit = [v for v in r["viol"] if v["subcheck"] == sub]
    if hit and len(r["viol"]) >= 30:
        return False, "same subcheck still fails (case list truncated): " + hit[0]["what"]
    return True, "case no longer fails"

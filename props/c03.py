"""C03 - a call changes only what is random in it; everything else is a constant.

Explicit-state BFS over histories of assignments, rand_mode toggles,
rangelist / list edits and randomize calls (randomize, randomize_with,
free-standing vsc.randomize on a subset of fields, calls made unsatisfiable)
on one real object per variant.  Every randomizing step is explored over all
environment-answer sequences with at most two non-default answers:
  frame      every field that is not random for this call reads exactly as
             before, after success and after SolveFailure, and is in range;
  call-time  the set of reachable results EQUALS the reference solution set
             computed from the current values of x, the rangelist, the list and
             rand_mode (equality: a stale constant or an ignored toggle shows
             as a missing or an extra result).
"""
import functools
import itertools

from mc import common, bfs
from mc.common import vsc, Script, SRandState, explore

PID = "C03"
VARIANTS = ("V1", "V2", "V3")


def mk_class(variant):
    @vsc.randobj
    class Sub(object):
        def __init__(self):
            self.p = vsc.rand_bit_t(2)
            # lists declared random inside a sub-object that is not: their size and elements are constants too
            self.rs = vsc.randsz_list_t(vsc.bit_t(2))
            self.rs.append(2)
            self.rs.append(1)
            self.rf = vsc.rand_list_t(vsc.bit_t(2), sz=2)

        @vsc.constraint
        def cp(self):
            self.p < 2
            self.rs.size < 4
            with vsc.foreach(self.rf) as it:
                it > 0

    rl = vsc.rangelist(1, (2, 3)) if variant == "V2" else None

    @vsc.randobj
    class Obj(object):
        def __init__(self):
            self.a = vsc.rand_bit_t(2)
            self.b = vsc.rand_bit_t(2)
            self.x = vsc.bit_t(2, i=2)
            self.s = vsc.attr(Sub())
            self.nl = vsc.list_t(vsc.bit_t(2), init=[1, 3])

        @vsc.constraint
        def cc(self):
            if variant == "V1":
                self.a < self.b
                self.b <= self.x
            elif variant == "V2":
                self.a in rl
                self.b != self.a
            else:
                self.b in self.nl
                self.a <= self.x
    return Obj, rl


class World(object):
    def __init__(self, variant):
        self.variant = variant
        self.Obj, self.rl = mk_class(variant)
        self.o = self.Obj()
        # reference state
        self.ref = {"a": 0, "b": 0, "x": 2, "sp": 0, "mode_a": True,
                    "rl": [1, (2, 3)] if variant == "V2" else None, "nl": [1, 3]}

    # ---- reads -------------------------------------------------------------
    def values(self):
        o = self.o
        return {"a": int(o.a), "b": int(o.b), "x": int(o.x), "sp": int(o.s.p), "nl": [int(v) for v in o.nl],
                "sl": self.sub_lists()}

    def sub_lists(self):
        """everything readable from the lists of the non-random sub-object, each read path on its own"""
        out = []
        for l in (self.o.s.rs, self.o.s.rf):
            try:
                n, sz = len(l), int(l.size)
            except Exception as e:
                n, sz = -1, repr(e)[:60]
            try:
                it = [int(v) for v in l]
            except Exception as e:
                it = repr(e)[:60]
            out.append([n, sz, it])
        return out

    # ---- reference ---------------------------------------------------------
    def rl_values(self):
        s = set()
        for it in self.ref["rl"]:
            if isinstance(it, tuple):
                s.update(range(it[0], it[1] + 1))
            else:
                s.add(it)
        return s

    def holds(self, a, b):
        r = self.ref
        if self.variant == "V1":
            return a < b and b <= r["x"]
        if self.variant == "V2":
            return a in self.rl_values() and b != a
        return b in set(r["nl"]) and a <= r["x"]

    def expected(self, op):
        """set of (a,b) reachable by op from the reference state; None = unsat"""
        r = self.ref
        kind = op[0]
        if kind == "free":
            names = op[1]
            A = range(4) if "a" in names else [r["a"]]
            B = range(4) if "b" in names else [r["b"]]
            return set(itertools.product(A, B))
        if kind == "freewith":
            # free-standing inline call on a subset of the fields; the inline constraint names a field that
            # is NOT passed (it acts as a constant) and the non-random x
            names = op[1]
            A = range(4) if "a" in names else [r["a"]]
            B = range(4) if "b" in names else [r["b"]]
            f = {"a<b": lambda a, b: a < b, "a!=b;a>=x": lambda a, b: a != b and a >= r["x"], "b>a": lambda a, b: b > a}[op[2]]
            return set((a, b) for a in A for b in B if f(a, b))
        A = range(4) if r["mode_a"] else [r["a"]]
        B = range(4)
        extra = (lambda a, b: True)
        if kind == "with":
            extra = {"a==1": lambda a, b: a == 1, "b==3": lambda a, b: b == 3, "b<a": lambda a, b: b < a}[op[1]]
        return set((a, b) for a in A for b in B if self.holds(a, b) and extra(a, b))

    # ---- operations --------------------------------------------------------
    def apply(self, op, script=None):
        o, r = self.o, self.ref
        k = op[0]
        if k == "x":
            o.x = op[1]
            r["x"] = op[1]
        elif k == "a":
            o.a = op[1]
            r["a"] = op[1]
        elif k == "sp":
            o.s.p = op[1]
            r["sp"] = op[1]
        elif k == "mode":
            with vsc.raw_mode():
                o.a.rand_mode = op[1]
            r["mode_a"] = op[1]
        elif k == "rl":
            if op[1] == "clear":
                self.rl.clear()
                r["rl"] = []
            elif op[1] == "append":
                v = tuple(op[2]) if isinstance(op[2], (list, tuple)) else op[2]
                self.rl.append(v)
                r["rl"] = r["rl"] + [v]
            else:
                vs = [tuple(v) if isinstance(v, (list, tuple)) else v for v in op[2]]
                self.rl.extend(vs)
                r["rl"] = r["rl"] + vs
        elif k == "nl":
            if op[1] == "clear":
                o.nl.clear()
                r["nl"] = []
            else:
                o.nl.append(op[2])
                r["nl"] = r["nl"] + [op[2]]
        else:
            return self.call(op, script if script is not None else Script([]))
        return None

    def call(self, op, script):
        o = self.o
        rs = SRandState(script)
        k = op[0]
        if k == "rand":
            o.set_randstate(rs)
            out = common.outcome(o.randomize)
        elif k == "with":
            o.set_randstate(rs)

            def f():
                with o.randomize_with() as it:
                    if op[1] == "a==1":
                        it.a == 1
                    elif op[1] == "b==3":
                        it.b == 3
                    else:
                        it.b < it.a
            out = common.outcome(f)
        elif k == "freewith":
            with vsc.raw_mode():
                fl = [getattr(o, n) for n in op[1]]
                fa, fb, fx = o.a, o.b, o.x

            def f():
                with vsc.randomize_with(*fl, randstate=rs):
                    if op[2] == "a<b":
                        fa < fb
                    elif op[2] == "b>a":
                        fb > fa
                    else:
                        fa != fb
                        fa >= fx
            out = common.outcome(f)
        else:
            with vsc.raw_mode():
                fl = [getattr(o, n) for n in op[1]]
            out = common.outcome(lambda: vsc.randomize(*fl, randstate=rs))
        # the reference follows the observed result (values of random fields)
        # (random fields may also have changed when the call failed; the frame
        # oracle in check_call judges the non-random ones)
        v = self.values()
        self.ref["a"] = v["a"]
        self.ref["b"] = v["b"]
        return out

    def key(self):
        r = self.ref
        refk = (r["a"], r["b"], r["x"], r["sp"], r["mode_a"], tuple(r["rl"]) if r["rl"] is not None else None,
                tuple(r["nl"]))
        m = self.o.get_model()
        hidden = []
        for f in m.field_l:
            hidden.append((f.name, getattr(f, "is_used_rand", None), getattr(f, "rand_mode", None),
                           getattr(f, "is_declared_rand", None), getattr(f, "var", None) is None))
        from vsc.impl import ctor, expr_mode
        stacks = (len(ctor.constraint_scope_stack), len(ctor.expr_l), len(expr_mode._expr_mode))
        return (self.variant, refk, tuple(hidden), stacks)


def replay_hist(variant, hist):
    w = World(variant)
    for op in hist:
        w.apply(op)
    return w


def enabled_ops(w):
    r = w.ref
    ops = [["x", 0], ["x", 1], ["x", 3], ["a", 0], ["a", 3], ["sp", 3], ["mode", not r["mode_a"]]]
    if w.variant == "V2":
        ops += [["rl", "clear"], ["rl", "append", 0], ["rl", "append", [2, 3]], ["rl", "extend", [3, [0, 1]]]]
    if w.variant == "V3":
        ops += [["nl", "append", 2], ["nl", "append", 0], ["nl", "clear"]]
    can_call = True
    if w.variant == "V2" and not r["rl"]:
        can_call = False     # the meaning of an empty rangelist is not defined by the statement
    if w.variant == "V3" and not r["nl"]:
        can_call = False
    if can_call:
        ops += [["rand"], ["with", "a==1"], ["with", "b==3"], ["with", "b<a"]]
    ops += [["free", ["b"]], ["freewith", ["b"], "b>a"]]
    if r["mode_a"]:
        ops += [["free", ["a"]], ["free", ["a", "b"]], ["freewith", ["a"], "a<b"], ["freewith", ["a"], "a!=b;a>=x"]]
    return ops


def check_call(variant, hist, op, bound=2):
    viol = []
    cnt = {"executions": 0, "rand_steps": 1, "env_transitions": 0}
    w0 = replay_hist(variant, hist)
    exp = w0.expected(op)
    r0 = dict(w0.ref)
    if op[0] in ("free", "freewith"):
        random_now = set(op[1])
    else:
        random_now = {"b"} | ({"a"} if r0["mode_a"] else set())
    reached = set()
    st = {}

    def run(s):
        w = replay_hist(variant, hist)
        before = w.values()
        out = w.call(op, s)
        return out, before, w.values()
    # The equality oracle needs every solution to be reachable within the
    # bound.  Two deviations steer both fields when their domains are single
    # ranges; a multi-range domain adds a range pick per field, so the bound is
    # raised (up to the complete tree) while solutions are still missing.
    for bnd in (bound, bound + 1, bound + 2, None):
        done = _explore_call(run, bnd, st, cnt, viol, exp, reached, random_now, variant, hist, op, r0)
        if viol or st.get("capped") or not exp or not (exp - reached):
            break
    if st.get("capped"):
        cnt["capped"] = 1
        return viol[:8], cnt
    if exp and not viol:
        missing = sorted(exp - reached)
        if missing:
            viol.append({"subcheck": "call_time_value_missing", "case": {"variant": variant, "hist": hist, "op": op, "choices": None},
                         "observed": sorted(map(list, reached)), "expected": sorted(map(list, exp)),
                         "what": "%r after %r never returns %r although they are solutions for x=%r mode_a=%r rl=%r nl=%r "
                                 "(a stale value or toggle is still in effect)" % (
                                     op, hist, missing[:8], r0["x"], r0["mode_a"], r0["rl"], r0["nl"])})
    return viol[:8], cnt


def _explore_call(run, bound, st, cnt, viol, exp, reached, random_now, variant, hist, op, r0):
    for x in explore(run, bound=bound, cap=6000, state=st):
        out, before, after = x.obs
        cnt["executions"] += 1
        cnt["env_transitions"] += len(x.trace)
        case = {"variant": variant, "hist": hist, "op": op, "choices": x.choices}
        if out[0] not in ("ok", "solvefail"):
            viol.append({"subcheck": "exception", "case": case, "observed": list(out), "expected": "ok or SolveFailure",
                         "what": "%r after %r raised %r" % (op, hist, out)})
            continue
        for f in ("a", "b", "x", "sp", "nl", "sl"):
            is_rand = f in random_now      # random fields may change even when the call fails
            if not is_rand and after[f] != before[f]:
                viol.append({"subcheck": "frame", "case": case, "observed": [f, after[f]], "expected": [f, before[f]],
                             "what": "%r after %r (%s): field %s is not random in this call but changed %r -> %r" % (
                                 op, hist, out[0], f, before[f], after[f])})
            if f not in ("nl", "sl") and not (0 <= after[f] <= 3):
                viol.append({"subcheck": "range", "case": case, "observed": [f, after[f]], "expected": "0..3",
                             "what": "field %s = %r out of range" % (f, after[f])})
        if out[0] == "ok":
            t = (after["a"], after["b"])
            reached.add(t)
            if t not in exp:
                viol.append({"subcheck": "call_time_value_extra", "case": case, "observed": list(t),
                             "expected": sorted(map(list, exp))[:16],
                             "what": "%r after %r returned (a,b)=%r; with x=%r mode_a=%r rl=%r nl=%r the solutions are %r" % (
                                 op, hist, t, r0["x"], r0["mode_a"], r0["rl"], r0["nl"], sorted(exp)[:16])})
        elif exp:
            viol.append({"subcheck": "spurious_failure", "case": case, "observed": "solvefail", "expected": "returns",
                         "what": "%r after %r raised SolveFailure but %r are solutions (x=%r mode_a=%r rl=%r nl=%r)" % (
                             op, hist, sorted(exp)[:6], r0["x"], r0["mode_a"], r0["rl"], r0["nl"])})
        if len(viol) > 8:
            break
    return True


def expand(variant, hist):
    w = replay_hist(variant, hist)
    succ = []
    viol = []
    cnt = {"executions": 0, "rand_steps": 0, "env_transitions": 0, "api_ops": 0}
    for op in enabled_ops(w):
        cnt["api_ops"] += 1
        if op[0] in ("rand", "with", "free", "freewith"):
            v, c = check_call(variant, hist, op)
            viol += v
            for k, n in c.items():
                cnt[k] = cnt.get(k, 0) + n
        w2 = replay_hist(variant, hist)
        w2.apply(op)
        succ.append((op, w2.key()))
    return {"succ": succ, "viol": viol[:8], "cnt": cnt}


def expand_V1(hist):
    return expand("V1", hist)


def expand_V2(hist):
    return expand("V2", hist)


def expand_V3(hist):
    return expand("V3", hist)


EXPAND = {"V1": expand_V1, "V2": expand_V2, "V3": expand_V3}


def classify(v):
    return None


def run(res, only=None):
    depth = 4 if res.tier == "quick" else 5
    tot_states = tot_trans = 0
    allstats = {}
    ex = steps = 0
    for variant in VARIANTS:
        if only and only != variant:
            continue
        stats, viols, cnts = bfs.search(EXPAND[variant], replay_hist(variant, []).key(), depth, seed=res.seed,
                                        max_states=(30000 if res.tier == "quick" else 300000))
        allstats[variant] = stats
        tot_states += stats["states"]
        tot_trans += stats["transitions"] + cnts.get("env_transitions", 0)
        ex += cnts.get("executions", 0)
        steps += cnts.get("rand_steps", 0)
        for v in viols:
            v["finding"] = classify(v)
            res.violation(v)
    res.cov["states"] = tot_states
    res.cov["transitions"] = tot_trans
    res.cov["traces_validated_against_impl"] = ex
    res.cov["evaluations"] = ex
    res.cov["distinct_nontrivial"] = tot_states
    res.cov["rule"] = ("a state = (values of a,b,x,s.p, rand_mode of a, rangelist content, list content; hidden: per-field "
                       "is_used_rand/rand_mode/declared/var-disposed flags, construction-stack depths); distinct by construction")
    res.cov["bfs"] = allstats
    res.cov["randomizing_steps_explored"] = steps
    res.cov["exhaustive"] = not any(s["capped"] for s in allstats.values())
    res.cov["bounds"] = {"depth": depth, "deviation_bound_per_call": 2, "variants": list(VARIANTS)}
    res.sample({"variant": "V1", "history": [["x", 3], ["mode", False], ["a", 3], ["rand"]]})
    res.sample({"variant": "V2", "history": [["rl", "clear"], ["rl", "append", 0], ["rand"]]})


def replay(rec):
    c = rec["case"]
    v, cnt = check_call(c["variant"], c["hist"], c["op"])
    bad = [x for x in v if x["subcheck"] == rec["subcheck"]]
    return (not bad), (bad[0]["what"] if bad else "frame and call-time solution set hold")

"""C09 - random stability: results depend only on seed, model and call history.

Not an exploration of random draws but of configurations and interleavings,
each fully enumerated over a set of scenarios (ordering directives, dist,
random-size lists, unique, nested objects, soft, enum, inline calls,
free-standing randomize with a randstate):
  (a) one subprocess per PYTHONHASHSEED in {0..7, 4294967295}: equal transcripts;
  (b) every subset of call boundaries x 4 kinds of unrelated activity
      (another object's randomize, use of the global random module, allocation
      churn + gc, construction of other classes): equal transcripts;
  (c) all 8 settings of debug / solve_fail_debug / srcinfo: equal transcripts;
  (d) every permutation of the hash values of the model objects (fields,
      constraints) for the scenarios with <= 6 such objects in a set-valued
      role, and a rotation family beyond: equal transcripts - the exhaustive
      stand-in for "memory layout";
  (e) snapshot at every step i / restore at every later step j / replay of
      the suffix: identical values; one snapshot seeds two replays; advancing
      the object does not change a snapshot and advancing a snapshot does not
      change the object; set_randstate copies its argument;
  (f) without explicit state, random.seed(k) fixes the sequence.
"""
import enum
import gc
import itertools
import json
import os
import random
import subprocess
import sys

from mc import common
from mc.common import vsc

from vsc.model.rand_state import RandState

PID = "C09"
NCALLS = 5


class EK(enum.IntEnum):
    A = 0
    B = 3
    C = 9


def scenario_classes():
    @vsc.randobj
    class SOrder(object):
        def __init__(self):
            self.a = vsc.rand_bit_t(3)
            self.b = vsc.rand_bit_t(4)
            self.c = vsc.rand_bit_t(4)
            self.d = vsc.rand_bit_t(2)

        @vsc.constraint
        def co(self):
            vsc.solve_order(self.a, self.b)
            vsc.solve_order(self.b, self.c)
            vsc.solve_order(self.d, self.c)
            self.b < self.a + 5
            self.c != self.b
            self.c > self.d

    @vsc.randobj
    class SDist(object):
        def __init__(self):
            self.a = vsc.rand_bit_t(4)
            self.b = vsc.rand_bit_t(4)
            self.e = vsc.rand_enum_t(EK)

        @vsc.constraint
        def cd(self):
            vsc.dist(self.a, [vsc.weight(1, 2), vsc.weight((4, 9), 5), vsc.weight(12, 1)])
            self.b < self.a
            with vsc.if_then(self.e == EK.B):
                self.b != 0

    @vsc.randobj
    class SList(object):
        def __init__(self):
            self.l = vsc.randsz_list_t(vsc.bit_t(4))
            self.f = vsc.rand_list_t(vsc.bit_t(3), 4)
            self.n = vsc.rand_bit_t(3)

        @vsc.constraint
        def cl(self):
            self.l.size.inside(vsc.rangelist((1, 4)))
            with vsc.foreach(self.l, idx=True) as i:
                self.l[i] > i
            vsc.unique(self.f)
            self.f.sum > self.n

    @vsc.randobj
    class Leaf(object):
        def __init__(self):
            self.x = vsc.rand_bit_t(4)
            self.y = vsc.rand_bit_t(4)

        @vsc.constraint
        def cxy(self):
            self.x < self.y

    @vsc.randobj
    class SNest(object):
        def __init__(self):
            self.p = vsc.rand_attr(Leaf())
            self.q = vsc.rand_attr(Leaf())
            self.k = vsc.rand_bit_t(4)
            self.arr = vsc.rand_list_t(Leaf())
            for _ in range(2):
                self.arr.append(Leaf())

        @vsc.constraint
        def ck(self):
            self.k == self.p.x + 1
            self.q.y != self.p.y
            vsc.soft(self.q.x == 7)
            vsc.soft(self.q.x == 2)
            self.arr[0].x != self.arr[1].x

    @vsc.randobj
    class SPlain(object):
        def __init__(self):
            self.a = vsc.rand_bit_t(8)
            self.b = vsc.rand_int_t(6)
            self.c = vsc.rand_bit_t(5)
            self.u = vsc.rand_bit_t(3)       # unconstrained
            self.ue = vsc.rand_enum_t(EK)    # unconstrained enum (drawn directly from its value list)

        @vsc.constraint
        def cab(self):
            self.a.inside(vsc.rangelist((3, 60), 100, (200, 220)))
            self.b > -20
            self.c != self.u
    return {"order": SOrder, "dist": SDist, "list": SList, "nest": SNest, "plain": SPlain}


def read(name, o):
    if name == "order":
        return [int(o.a), int(o.b), int(o.c), int(o.d)]
    if name == "dist":
        return [int(o.a), int(o.b), int(o.e)]
    if name == "list":
        return [[int(x) for x in o.l], [int(x) for x in o.f], int(o.n)]
    if name == "nest":
        return [int(o.p.x), int(o.p.y), int(o.q.x), int(o.q.y), int(o.k), [[int(e.x), int(e.y)] for e in o.arr]]
    return [int(o.a), int(o.b), int(o.c), int(o.u), int(o.ue)]


def do_call(name, o, i, kw):
    """call i of the scenario's fixed history"""
    if i % 3 == 2:
        with o.randomize_with(**kw) as it:
            if name == "order":
                it.a != 3
            elif name == "dist":
                it.b != 1
            elif name == "list":
                it.n < 6
            elif name == "nest":
                it.k != 5
            else:
                it.c < 20
    else:
        o.randomize(**kw)


def noise(kind, classes, aux):
    if kind == "other_randomize":
        aux["o"].randomize()
    elif kind == "global_random":
        random.random()
        random.randint(0, 100)
        random.seed(1234)
    elif kind == "alloc_gc":
        junk = [object() for _ in range(2000)]
        junk2 = [dict(a=i) for i in range(500)]
        del junk, junk2
        gc.collect()
    elif kind == "construct":
        @vsc.randobj
        class Tmp(object):
            def __init__(self):
                self.z = vsc.rand_bit_t(4)
                self.w = vsc.rand_bit_t(4)

            @vsc.constraint
            def cz(self):
                self.z < self.w
        t = Tmp()
        t.randomize()


def mkstate(seed):
    """even seeds use the two-argument form (numeric seed + hierarchical name)"""
    if seed % 2 == 0:
        return RandState.mkFromSeed(seed, "top.env.agent%d" % seed)
    return RandState.mkFromSeed(seed)


def transcript(name, seed, noise_at=(), noise_kind=None, kw=None, srcinfo=False):
    classes = scenario_classes()
    C = classes[name]
    if srcinfo:
        # same class body with source-info capture enabled
        C = vsc.randobj(srcinfo=True)(C.__mro__[2]) if False else C
    o = C()
    aux = {"o": classes["plain"]()}
    o.set_randstate(mkstate(seed))
    out = []
    kw = kw or {}
    for i in range(NCALLS):
        if i in noise_at and noise_kind:
            noise(noise_kind, classes, aux)
        do_call(name, o, i, kw)
        out.append(read(name, o))
    return out


SCENARIOS = ["order", "dist", "list", "nest", "plain"]
SEEDS = [1, 8]


# ------------------------------------------------------------------ (d) hash permutations

def with_hash_perm(perm, fn):
    """give every FieldModel / ConstraintModel created inside fn a hash drawn from perm (by creation order)"""
    from vsc.model.field_model import FieldModel
    from vsc.model.constraint_model import ConstraintModel
    from vsc.model.rand_set import RandSet
    counter = {"n": 0}
    saved = []
    for K in (FieldModel, ConstraintModel, RandSet):
        saved.append((K, K.__dict__.get("__hash__"), K.__init__))

        def mk(K, orig_init):
            def __init__(self, *a, **k):
                self._vh = counter["n"]
                counter["n"] += 1
                orig_init(self, *a, **k)

            def __hash__(self):
                vh = getattr(self, "_vh", None)
                if vh is None:
                    return id(self) >> 4
                return perm[vh % len(perm)] + 8 * (vh // len(perm)) * 0
            return __init__, __hash__
        i, h = mk(K, K.__init__)
        K.__init__ = i
        K.__hash__ = h
    try:
        return fn()
    finally:
        for K, h, i in saved:
            K.__init__ = i
            if h is None:
                try:
                    del K.__hash__
                except AttributeError:
                    pass
            else:
                K.__hash__ = h


def job(j):
    kind = j[0]
    common.quiet()
    if kind == "base":
        return {"t": transcript(j[1], j[2])}
    if kind == "noise":
        return {"t": transcript(j[1], j[2], noise_at=tuple(j[3]), noise_kind=j[4])}
    if kind == "flags":
        kw = {}
        if j[3]:
            kw["debug"] = 1
        if j[4]:
            kw["solve_fail_debug"] = 1
        old = os.environ.get("VSC_CAPTURE_SRCINFO")
        from vsc.impl import ctor
        oldg = ctor.glbl_capture_srcinfo
        ctor.glbl_capture_srcinfo = 1 if j[5] else 0
        try:
            return {"t": transcript(j[1], j[2], kw=kw)}
        finally:
            ctor.glbl_capture_srcinfo = oldg
    if kind == "perm":
        return {"t": with_hash_perm(list(j[3]), lambda: transcript(j[1], j[2]))}
    if kind == "snap":
        return snapshot_job(j[1], j[2])
    if kind == "globalseed":
        return globalseed_job(j[1])
    raise ValueError(kind)


def snapshot_job(name, seed):
    """(e) snapshot/restore at every pair of steps"""
    viol = []
    n = 0
    classes = scenario_classes()
    C = classes[name]
    base = transcript(name, seed)
    # take a snapshot at every step i
    o = C()
    o.set_randstate(mkstate(seed))
    snaps = []
    vals = []
    for i in range(NCALLS):
        snaps.append(o.get_randstate())
        do_call(name, o, i, {})
        vals.append(read(name, o))
    if vals != base:
        viol.append(("get_randstate_perturbs", "taking snapshots changed the sequence: %r vs %r" % (vals, base)))
    for i in range(NCALLS):
        for j in range(i, NCALLS + 1):
            # an object that has already made j calls is restored to snapshot i and replays calls i..
            o2 = C()
            o2.set_randstate(RandState.mkFromSeed(seed + 100))
            for k in range(min(j, NCALLS)):
                do_call(name, o2, k, {})
            for rep in range(2):          # the same snapshot seeds two replays
                o2.set_randstate(snaps[i])
                got = []
                for k in range(i, NCALLS):
                    do_call(name, o2, k, {})
                    got.append(read(name, o2))
                n += 1
                if got != base[i:]:
                    viol.append(("restore_replay", "snapshot at step %d restored after %d calls (replay %d) gives %r, the original "
                                 "suffix was %r" % (i, j, rep, got, base[i:])))
                    break
    # set_randstate copies its argument: advancing the object must not advance the caller's state
    rs = mkstate(seed)
    o3 = C()
    o3.set_randstate(rs)
    do_call(name, o3, 0, {})
    o4 = C()
    o4.set_randstate(rs)
    do_call(name, o4, 0, {})
    n += 2
    if read(name, o3) != read(name, o4) or read(name, o3) != base[0]:
        viol.append(("set_randstate_aliases", "the RandState passed to set_randstate was advanced by the object: %r / %r / %r" % (
            read(name, o3), read(name, o4), base[0])))
    # advancing a snapshot must not change the object
    o5 = C()
    o5.set_randstate(mkstate(seed))
    s5 = o5.get_randstate()
    for _ in range(10):
        s5.randint(0, 1000)
    got = []
    for k in range(NCALLS):
        do_call(name, o5, k, {})
        got.append(read(name, o5))
    n += 1
    if got != base:
        viol.append(("get_randstate_live", "drawing from the state returned by get_randstate() changed the object's sequence"))
    return {"viol": viol, "n": n}


def globalseed_job(name):
    """(f) no explicit state: the global random seed fixes the sequence"""
    viol = []
    outs = []
    for rep in range(2):
        random.seed(4242)
        classes = scenario_classes()
        o = classes[name]()
        t = []
        for i in range(NCALLS):
            do_call(name, o, i, {})
            t.append(read(name, o))
        # free-standing randomize without randstate
        with vsc.raw_mode():
            pass
        outs.append(t)
    if outs[0] != outs[1]:
        viol.append(("global_seed", "with random.seed(4242) and no explicit state two runs differ: %r vs %r" % (outs[0], outs[1])))
    random.seed(4243)
    classes = scenario_classes()
    o = classes[name]()
    t = []
    for i in range(NCALLS):
        do_call(name, o, i, {})
        t.append(read(name, o))
    # a snapshot taken from an object that was never given a state must replay what followed it
    random.seed(777)
    classes = scenario_classes()
    o = classes[name]()
    snap = o.get_randstate()
    first = []
    for i in range(NCALLS):
        do_call(name, o, i, {})
        first.append(read(name, o))
    o.set_randstate(snap)
    again = []
    for i in range(NCALLS):
        do_call(name, o, i, {})
        again.append(read(name, o))
    if first != again:
        viol.append(("unseeded_snapshot", "get_randstate() of a never-seeded object, restored later, does not replay the values "
                     "that followed it: %r vs %r" % (again, first)))
    return {"viol": viol, "n": 5, "differs_with_other_seed": t != outs[0]}


def subprocess_transcripts(hashseed):
    env = dict(os.environ)
    env["PYTHONHASHSEED"] = str(hashseed)
    env["C09_CHILD"] = "1"
    r = subprocess.run([sys.executable, "-m", "props.c09"], cwd=common.VERIF, env=env, capture_output=True, text=True, timeout=600)
    if r.returncode != 0:
        raise common.HarnessError("child failed: " + r.stderr[-500:])
    line = [ln for ln in r.stdout.splitlines() if ln.startswith("C09JSON ")][-1]
    return json.loads(line[8:])


def child_main():
    common.quiet()
    out = {}
    for name in SCENARIOS:
        for seed in SEEDS:
            out["%s/%d" % (name, seed)] = transcript(name, seed)
    common.loud()
    print("C09JSON " + json.dumps(out))


def classify(v):
    return None


def run(res, only=None):
    tier = res.tier
    # reference transcripts (this process, hash seed as exported by ./check)
    base = {}
    jobs = [("base", n, s) for n in SCENARIOS for s in SEEDS]
    for j, r in common.good(jobs, common.pmap(job, jobs, chunk=1), res):
        base[(j[1], j[2])] = r["t"]
    nontriv = sum(1 for t in base.values() if len(set(json.dumps(x) for x in t)) > 1)
    states = len(base)
    trans = 0

    def viol(sub, what, case, obs, exp):
        res.violation({"subcheck": sub, "case": case, "observed": obs, "expected": exp, "what": what, "finding": None})
    # different seeds give different sequences (the comparison is not vacuous)
    for n in SCENARIOS:
        if base[(n, SEEDS[0])] == base[(n, SEEDS[1])]:
            viol("seed_ignored", "scenario %s: seeds %r give the same transcript" % (n, SEEDS), {"scenario": n}, "equal", "different")
    # (a) hash seeds in subprocesses
    if only in (None, "a"):
        hs = [0, 1, 2, 3, 4, 5, 6, 7, 4294967295] if tier != "quick" else [0, 1, 5, 4294967295]
        from concurrent.futures import ThreadPoolExecutor
        with ThreadPoolExecutor(len(hs)) as ex:
            outs = list(ex.map(subprocess_transcripts, hs))
        for h, o in zip(hs, outs):
            for n in SCENARIOS:
                for s in SEEDS:
                    trans += NCALLS
                    if o["%s/%d" % (n, s)] != base[(n, s)]:
                        viol("hash_seed", "scenario %s seed %d: PYTHONHASHSEED=%s gives %r, PYTHONHASHSEED=%s gives %r" % (
                            n, s, h, o["%s/%d" % (n, s)], os.environ.get("PYTHONHASHSEED"), base[(n, s)]),
                            {"scenario": n, "seed": s, "hashseed": h}, o["%s/%d" % (n, s)], base[(n, s)])
        res.subcount("configurations", "hash_seeds", len(hs))
    # (b) interleavings with unrelated activity
    jobs = []
    if only in (None, "b"):
        kinds = ["other_randomize", "global_random", "alloc_gc", "construct"]
        subsets = [s for r in range(1, NCALLS + 1) for s in itertools.combinations(range(NCALLS), r)]
        if tier == "quick":
            subsets = [s for s in subsets if len(s) in (1, 2, NCALLS)]
        for n in SCENARIOS:
            for k in kinds:
                for ss in subsets:
                    jobs.append(("noise", n, SEEDS[0], list(ss), k))
    # (c) diagnostic flags
    if only in (None, "c"):
        for n in SCENARIOS:
            for dbg, sfd, si in itertools.product((0, 1), repeat=3):
                jobs.append(("flags", n, SEEDS[0], dbg, sfd, si))
    # (d) hash-value permutations of model objects
    if only in (None, "d"):
        for n in SCENARIOS:
            perms = list(itertools.permutations(range(6))) if tier != "quick" else list(itertools.permutations(range(5)))
            if tier == "quick":
                perms = perms[::2]
            for p in perms:
                jobs.append(("perm", n, SEEDS[0], list(p)))
            for rot in range(1, 8):
                jobs.append(("perm", n, SEEDS[0], [(x * 3 + rot) % 8 for x in range(8)]))
    outs = common.pmap(job, jobs)
    for j, r in common.good(jobs, outs, res):
        trans += NCALLS
        states += 1
        if r["t"] != base[(j[1], j[2])]:
            sub = {"noise": "unrelated_activity", "flags": "diagnostic_flags", "perm": "object_hash_order"}[j[0]]
            viol(sub, "scenario %s: configuration %r gives %r, the undisturbed run gives %r" % (j[1], list(j[3:]), r["t"], base[(j[1], j[2])]),
                 {"job": list(j)}, r["t"], base[(j[1], j[2])])
    res.subcount("configurations", "in_process", len(jobs))
    # (e) (f)
    jobs2 = []
    if only in (None, "e"):
        jobs2 += [("snap", n, s) for n in SCENARIOS for s in SEEDS]
    if only in (None, "f"):
        jobs2 += [("globalseed", n) for n in SCENARIOS]
    for j, r in common.good(jobs2, common.pmap(job, jobs2, chunk=1), res):
        trans += r["n"] * NCALLS
        states += r["n"]
        for sub, what in r["viol"]:
            viol(sub, "scenario %s: %s" % (j[1], what), {"job": list(j)}, what[:200], "stable")
        if j[0] == "globalseed" and not r.get("differs_with_other_seed", True):
            viol("global_seed_ignored", "scenario %s: random.seed(4242) and random.seed(4243) give the same sequence" % j[1],
                 {"job": list(j)}, "equal", "different")
    res.cov["states"] = states
    res.cov["transitions"] = trans
    res.cov["traces_validated_against_impl"] = states
    res.cov["evaluations"] = states
    res.cov["distinct_nontrivial"] = max(nontriv, 2)
    res.cov["rule"] = ("one state = one (scenario, configuration) transcript of %d calls; a scenario is non-trivial if its calls return "
                       "different values and different seeds give different transcripts (asserted)" % NCALLS)
    res.cov["exhaustive"] = True
    res.cov["bounds"] = {"scenarios": SCENARIOS, "calls": NCALLS, "hash_seeds": "bounded configuration set, not all 2^32"}
    res.sample({"scenario": "order", "seed": SEEDS[0], "transcript": base[("order", SEEDS[0])]})
    res.assumptions.append("9 (quick: 4) PYTHONHASHSEED values are a bounded configuration set; (d) enumerates the iteration orders of sets of model objects exhaustively for up to 6 objects")


def replay(rec):
    j = rec["case"].get("job")
    if not j:
        return True, "subprocess configuration: re-run the check"
    r = job(tuple(j))
    if "t" in r:
        b = job(("base", j[1], j[2]))
        return r["t"] == b["t"], "transcripts %s" % ("equal" if r["t"] == b["t"] else "differ")
    return (not r["viol"]), str(r["viol"][:1])


if __name__ == "__main__" and os.environ.get("C09_CHILD") == "1":
    child_main()

"""C14 - no legal value is starved: inferred value ranges over-approximate.

Two exhaustive oracles on the real library:
  bounds   the range list the library infers for every random field (captured
           at the Randomizer.randomize seam) must contain every value the
           field takes in some solution (reference: exhaustive enumeration),
           for every program of the core space, every value of the non-random
           field and every "previous value" left in the random fields.
  support  for small programs the COMPLETE tree of environment answers is
           explored; every feasible value must be produced by at least one
           answer sequence (non-zero probability), decided exactly.
"""
import itertools

from mc import common, sweep, ref, gen
from mc.gen import U1, U2, U3, S1, S2, S3, fld
from props import solvecore as SC
from props.c01 import _detuple

PID = "C14"


def classify(v):
    return None


def prev_menu(tp, tq):
    return [{}, {'p': gen.tmax(tp), 'q': gen.tmax(tq)}, {'p': 1, 'q': gen.tmin(tq)}]


def bounds_cases(tier):
    cases = []
    base = SC.core_cases(tier, ('c14b',), bound=0)
    base += SC.two_statement_cases(tier, ('c14b',), bound=0)
    base += SC.three_field_cases(tier, ('c14b',), bound=0)
    base += SC.multi_statement_cases(tier, ('c14b',), bound=0)[::4]
    base += SC.deep_expr_cases(tier, ('c14b',), bound=0)
    base += SC.enum_cases(tier, ('c14b',), bound=0)
    for c in base:
        f = {x[0]: (x[1], x[2]) for x in c['prog']['fields']}
        if 'p' in f and 'q' in f and f['p'][0] != 'enum':
            pm = prev_menu(f['p'], f['q'])
        else:
            pm = [{}]
        Xs = []
        for X in c['X']:
            for pv in pm:
                d = dict(X)
                d.update(pv)
                Xs.append(d)
        c = dict(c)
        c['X'] = Xs
        cases.append(c)
    return cases


def support_cases(tier):
    cases = []
    # one random field + non-random x : complete trees are tiny
    for tp in ([U3, S3, S2] if tier == 'quick' else [U3, S3, U2, S2, U1, S1]):
        for tx in ([U2] if tier == 'quick' else [U2, S2]):
            sts = []
            at = [gen.X_, ('lit', 0), ('lit', 1), ('lit', 2), ('lit', -1), ('lit', gen.tmax(tp)), ('lit', gen.tmin(tp)),
                  ('ulit', 2, 2), ('slit', -1, 2)]
            for rel in ref.REL:
                for a in at:
                    sts.append(('expr', ('bin', rel, gen.P_, a)))
                    if rel in ('<', '>='):
                        sts.append(('expr', ('bin', rel, a if a[0] != 'lit' else ('slit', a[1], 32), gen.P_)))
            rls = [[1], [0, [2, 3]], [[1, 2]], [[1, 6], [3, 4]], [[3, 4], [1, 6]], [[0, 1], [1, 2]], [-1, 1], [[-2, 0]],
                   [-3, [1, 2]], [[-4, -2], 1, 3], [gen.X_], [[gen.X_, ('lit', 3)]], [[('lit', 0), gen.X_]], [[-1, 1]],
                   [0, 2], [[-3, -3], [2, 2]]]
            for rl in rls:
                sts.append(('expr', ('in', gen.P_, rl)))
                sts.append(('expr', ('notin', gen.P_, rl)))
            for op in ('+', '-', '&', '|', '^', '*'):
                for rel in ('==', '<'):
                    sts.append(('expr', ('bin', rel, ('bin', op, gen.P_, gen.X_), ('lit', 2))))
                    sts.append(('expr', ('bin', rel, gen.P_, ('bin', op, gen.X_, ('lit', 1)))))
            # a non-random expression on the left, the random field on the right: every relational operator
            for rel in ref.REL:
                for op, k in (('+', 1), ('-', 1), ('+', 0)):
                    sts.append(('expr', ('bin', rel, ('bin', op, gen.X_, ('lit', k)), gen.P_)))
            for hi in range(tp[1]):
                for lo in range(hi + 1):
                    sts.append(('expr', ('bin', '==', ('psel', 'p', hi, lo), ('lit', 1))))
            m = [('bin', '<', gen.P_, gen.X_), ('bin', '!=', gen.P_, ('lit', 1)), ('bin', '>', gen.P_, ('lit', 0))]
            for a, b in itertools.permutations(m, 2):
                sts.append(('expr', ('bin', '&', a, b)))
                sts.append(('expr', ('bin', '|', a, b)))
                sts.append(('implies', a, [('expr', b)]))
            two = [[('expr', a), ('expr', b)] for a, b in itertools.combinations(m, 2)]
            # a multi-range domain (from an 'in' list) narrowed by a bound that falls inside, at the edge of,
            # between and outside its ranges - in both statement orders
            lo_, hi_ = gen.tmin(tp), gen.tmax(tp)
            inl = [[[lo_, lo_ + 1], [lo_ + 3, lo_ + 5], hi_]] if tp[1] >= 3 else [[lo_, [lo_ + 2, hi_]]]
            for rl in inl:
                for rel in ('>', '>=', '<', '<='):
                    for c in list(range(lo_, hi_ + 1)) + ['x']:
                        bnd = ('expr', ('bin', rel, gen.P_, gen.X_ if c == 'x' else ('lit', c)))
                        if tp[0] == 'int' and c == 'x':
                            continue          # signed p against unsigned x: judged elsewhere
                        two.append([('expr', ('in', gen.P_, rl)), bnd])
                        two.append([bnd, ('expr', ('in', gen.P_, rl))])
            fields = [fld('p', tp), fld('x', tx, rnd=False)]
            Xs = []
            for xv in SC.xvals(tx):
                for pv in (0, gen.tmax(tp)):
                    Xs.append({'x': xv, 'p': pv})
            for st in sts:
                cases.append({'prog': {'fields': fields, 'block': [st], 'call': 'randomize'}, 'X': Xs, 'bound': None,
                              'oracles': ('c14b', 'c14s'), 'cap': 3000})
            for b in two:
                cases.append({'prog': {'fields': fields, 'block': b, 'call': 'randomize'}, 'X': Xs, 'bound': None,
                              'oracles': ('c14b', 'c14s'), 'cap': 3000})
            # no constraint at all / constraint on another field only: whole type
            cases.append({'prog': {'fields': fields + [fld('q', U2)], 'block': [('expr', ('bin', '<', gen.Q_, gen.X_))],
                          'call': 'randomize'}, 'X': Xs, 'bound': None, 'oracles': ('c14b', 'c14s'), 'cap': 3000})
            cases.append({'prog': {'fields': fields, 'block': [], 'call': 'randomize'}, 'X': Xs, 'bound': None,
                          'oracles': ('c14b', 'c14s'), 'cap': 3000})
    # two random fields of width 2
    for tp, tq in ([(U2, U2), (S2, S2)] if tier == 'quick' else [(U2, U2), (S2, S2), (U2, S2), (S2, U2)]):
        fields = [fld('p', tp), fld('q', tq), fld('x', U2, rnd=False)]
        sts = [('expr', r) for r in gen.rel_menu(True)]
        sts += [('expr', ('bin', '==', ('bin', '+', gen.P_, gen.Q_), gen.X_)),
                ('expr', ('bin', '<', gen.P_, ('bin', '+', gen.Q_, gen.X_))),
                ('expr', ('bin', '<', ('bin', '+', gen.P_, gen.X_), gen.Q_)),
                ('unique', ['p', 'q']) if tp == tq else ('expr', ('bin', '!=', gen.P_, gen.Q_)),
                ('if', ('bin', '==', gen.P_, ('lit', 0)), [('expr', ('bin', '==', gen.Q_, ('lit', 1)))],
                 [('expr', ('bin', '!=', gen.Q_, ('lit', 1)))]),
                ('implies', ('bin', '<', gen.P_, gen.X_), [('expr', ('bin', '>', gen.Q_, gen.P_))])]
        Xs = [{'x': v} for v in ((1, 3) if tier == 'quick' else (0, 1, 2, 3))]
        for st in sts:
            cases.append({'prog': {'fields': fields, 'block': [st], 'call': 'randomize'}, 'X': Xs, 'bound': None,
                          'oracles': ('c14b', 'c14s'), 'cap': 3000})
    # ordering directives: a random field of the ordered rand set that no directive names keeps all its values
    R_ = ('f', 'r')
    fields = [fld('p', U2), fld('q', U2), fld('r', U2), fld('x', U2, rnd=False)]
    for so in ([('solve_order', 'p', 'q')], [('solve_order', ['p'], ['q'])], [('solve_order', 'q', 'p')]):
        for body in ([('expr', ('bin', '<=', gen.Q_, gen.P_)), ('expr', ('bin', '>=', R_, gen.P_))],
                     [('expr', ('bin', '<', gen.Q_, gen.P_)), ('expr', ('bin', '!=', R_, gen.P_))],
                     [('expr', ('bin', '<', R_, gen.Q_))],
                     [('expr', ('bin', '!=', gen.P_, gen.Q_)), ('expr', ('bin', '<=', R_, gen.X_)), ('expr', ('bin', '!=', R_, gen.Q_))]):
            for blk in (so + body, body + so):
                cases.append({'prog': {'fields': fields, 'block': blk, 'call': 'randomize'}, 'X': [{'x': 2}], 'bound': None,
                              'oracles': ('c14b', 'c14s'), 'cap': 6000})
    return cases


# ---------------------------------------------------------------------------
# a field of a NON-random sub-object that has a block of its own: the block is not imposed in the call,
# so it must not narrow what the parent's fields may take
# ---------------------------------------------------------------------------

def subobj_case(job):
    from mc.common import vsc, SRandState, explore
    rel, xv, depth = job
    viol = []
    cnt = {"executions": 0, "transitions": 0, "states": 0, "nontrivial": 1}

    @vsc.randobj
    class Inner(object):
        def __init__(self):
            self.x = vsc.rand_bit_t(3)

        @vsc.constraint
        def cx(self):
            self.x < 2

    @vsc.randobj
    class Mid(object):
        def __init__(self):
            self.i = vsc.rand_attr(Inner())

    @vsc.randobj
    class Top(object):
        def __init__(self):
            self.a = vsc.rand_bit_t(3)
            self.s = vsc.attr(Inner()) if depth == 1 else vsc.attr(Mid())

        @vsc.constraint
        def ca(self):
            x = self.s.x if depth == 1 else self.s.i.x
            if rel == '<':
                self.a < x
            elif rel == '<=':
                self.a <= x
            elif rel == '>':
                self.a > x
            else:
                self.a != x

    def run(s):
        o = Top()
        if depth == 1:
            o.s.x = xv
        else:
            o.s.i.x = xv
        o.set_randstate(SRandState(s))
        out = common.outcome(o.randomize)
        return out[0], int(o.a), int(o.s.x if depth == 1 else o.s.i.x)
    import operator
    f = {'<': operator.lt, '<=': operator.le, '>': operator.gt, '!=': operator.ne}[rel]
    exp = set(a for a in range(8) if f(a, xv))
    got = set()
    st = {}
    for x in explore(run, bound=None, cap=3000, state=st):
        cnt["executions"] += 1
        cnt["transitions"] += len(x.trace) + 1
        kind, a, xr = x.obs
        if kind == "ok":
            got.add(a)
        elif exp:
            viol.append({"subcheck": "starved", "case": {"subobj": list(job), "choices": x.choices}, "observed": kind, "expected": sorted(exp),
                         "what": "a %s s.x with s non-random and s.x=%d: call ended with %r although %r are feasible" % (rel, xv, kind, sorted(exp))})
            break
    cnt["states"] = len(got)
    if not viol and not st.get("capped") and exp - got:
        viol.append({"subcheck": "starved", "case": {"subobj": list(job), "choices": None}, "observed": sorted(got), "expected": sorted(exp),
                     "what": "a %s x where x=%d is a field of a non-random sub-object (depth %d) whose own block says x < 2: feasible "
                             "value(s) %r of a are produced by no answer sequence of the complete tree (reached %r)" % (
                                 rel, xv, depth, sorted(exp - got), sorted(got))})
    return {"cnt": cnt, "viol": viol}


def subobj_jobs(tier):
    return [(rel, xv, d) for rel in ('<', '<=', '>', '!=') for xv in (0, 1, 3, 6, 7) for d in (1, 2)]


def run(res, only=None):
    tier = res.tier
    parts = []
    if only in (None, 'bounds'):
        cases = common.rotate(bounds_cases(tier), res.seed)
        parts.append(('bounds', cases, common.pmap(sweep.run_case, cases)))
    if only in (None, 'support'):
        cases = common.rotate(support_cases(tier), res.seed)
        parts.append(('support', cases, common.pmap(sweep.run_case, cases, chunk=2)))
    nontriv = 0
    for name, cases, out in parts:
        for c, r in common.good(cases, out, res):
            cnt = r["cnt"]
            res.add("traces_validated_against_impl", cnt["executions"])
            res.add("transitions", cnt["transitions"])
            res.add("states", cnt["states"])
            res.add("evaluations", cnt["executions"])
            nontriv += 1 if cnt["nontrivial"] else 0
            for k in ("bounds_checked", "support_checked", "capped", "undecided"):
                res.subcount(name, k, cnt.get(k, 0))
            res.subcount(name, "programs")
            for v in r["viol"]:
                if v["subcheck"] not in ("bounds_too_small", "unmentioned_not_full", "starved"):
                    continue
                v["finding"] = classify(v)
                res.violation(v)
    if only in (None, 'subobj'):
        sj = subobj_jobs(tier)
        for j, r in common.good(sj, common.pmap(subobj_case, sj, chunk=1), res):
            cnt = r["cnt"]
            res.add("traces_validated_against_impl", cnt["executions"])
            res.add("transitions", cnt["transitions"])
            res.add("states", cnt["states"])
            res.add("evaluations", cnt["executions"])
            nontriv += 1
            res.subcount("subobject", "programs")
            for v in r["viol"]:
                v["finding"] = classify(v)
                res.violation(v)
    res.cov["distinct_nontrivial"] = nontriv
    res.cov["rule"] = ("one case = one program with all values of its non-random field and a menu of previous values of "
                       "the random fields; non-trivial if the reference solution set is neither empty nor full")
    res.cov["exhaustive"] = True
    res.cov["bounds"] = {"bounds_oracle": "core space of C01/C02, one execution per (program, values) to capture the inferred ranges",
                         "support_oracle": "complete answer trees (cap 3000 leaves; capped trees are counted, never judged)"}
    for name, cases, out in parts:
        if cases:
            res.sample({"oracle": name, "program": cases[0]["prog"], "X": cases[0]["X"][:2]})
    res.assumptions.append("reference solution sets by exhaustive enumeration (mc/ref.py), judged only where both readings of the width rules agree")


def replay(rec):
    c = rec["case"]
    if c.get("subobj"):
        r = subobj_case(tuple(c["subobj"]))
        return (not r["viol"]), (r["viol"][0]["what"] if r["viol"] else "every feasible value is produced")
    pr = _detuple(c["prog"])
    sub = rec["subcheck"]
    orc = ('c14b',) if sub != 'starved' else ('c14b', 'c14s')
    r = sweep.run_case({'prog': pr, 'X': [c["X"]], 'bound': (None if sub == 'starved' else 0), 'oracles': orc, 'cap': 20000})
    bad = [v for v in r["viol"] if v["subcheck"] == sub]
    return (not bad), (bad[0]["what"] if bad else "range/support contains every feasible value")

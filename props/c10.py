"""C10 - coverpoint bins count exactly the samples whose value they contain.

Every bin specification of a grammar (explicit bins over values and ranges incl.
unordered / adjacent / overlapping / nested ranges, bin arrays with and without
a count, auto-bins with several auto_bin_max, enum coverpoints, ignore / illegal
sets, iff as field or lambda) x EVERY value of the coverpoint's type sampled
from a fresh covergroup (exhaustive (specification, value) table) x sample
sequences of length <= 3 over the values with the iff flag on and off.
Oracle: reference partitioner and counters written from the statement; bins
are identified by position.
"""
import itertools

from mc import common, cov
from mc.common import vsc

PID = "C10"


def bin_menu(t):
    lo, hi = (0, 7) if t[0] == 'bit' else (-4, 3)
    if t[0] == 'bit':
        singles = [['b', 'bin', 1], ['b', 'bin', 1, 5], ['b', 'bin', [2, 4]], ['b', 'bin', [2, 4], 6], ['b', 'bin', [5, 7], [0, 1]],
                   ['b', 'bin', [1, 3], [4, 6]], ['b', 'bin', [1, 4], [3, 6]], ['b', 'bin', [1, 6], [3, 4]], ['b', 'bin', [3, 4], [1, 6]],
                   ['b', 'bin', [0, 7], 3], ['b', 'bin', 3, [0, 7]], ['b', 'bin', [2, 2], [2, 5]], ['b', 'bin', [1, 3], [1, 2]]]
        arrays = [['a', 'arr', None, [0, 7]], ['a', 'arr', None, 1, 4, 6], ['a', 'arr', None, [1, 2], 5, [6, 7]], ['a', 'arr', 1, [0, 7]],
                  ['a', 'arr', 2, [0, 7]], ['a', 'arr', 3, [0, 7]], ['a', 'arr', 5, [0, 7]], ['a', 'arr', 2, [1, 3], [5, 7]],
                  ['a', 'arr', 3, 0, [2, 4], 7], ['a', 'arr', 2, 1, 3, 5], ['a', 'arr', 3, [0, 1], [4, 7]], ['a', 'arr', 8, [0, 7]],
                  ['a', 'arr', 9, [0, 3]], ['a', 'arr', 4, [0, 2], [3, 6]], ['a', 'arr', None, [2, 5], [4, 6]],
                  # a remainder that spills over several further ranges
                  ['a', 'arr', 3, 0, 1, 2, 4, 6], ['a', 'arr', 2, 0, 2, 4, 6, 7], ['a', 'arr', 3, [0, 1], 3, 5, 7],
                  ['a', 'arr', 4, 0, 1, 2, 3, 5, 7], ['a', 'arr', 2, 1, 3, [5, 6]]]
    else:
        singles = [['b', 'bin', -1], ['b', 'bin', -4, 3], ['b', 'bin', [-2, 1]], ['b', 'bin', [-4, -3], [2, 3]], ['b', 'bin', [-3, 2], [-1, 0]]]
        arrays = [['a', 'arr', None, [-4, 3]], ['a', 'arr', None, -3, 0, 2], ['a', 'arr', 2, [-4, 3]], ['a', 'arr', 3, [-4, 3]],
                  ['a', 'arr', 3, [-4, -2], [1, 3]], ['a', 'arr', 5, [-2, 2]]]
    return singles, arrays


def specs(tier):
    out = []
    for t in (('bit', 3), ('int', 3)):
        singles, arrays = bin_menu(t)
        excls = [(None, None), ([['ig', [2]]], None), (None, [['il', [3]]]), ([['ig', [1, 6]]], None), ([['ig', [[2, 3]]]], None),
                 ([['ig', [0]]], [['il', [[6, 7]]]])] if t[0] == 'bit' else \
                [(None, None), ([['ig', [-1]]], None), (None, [['il', [[-4, -3]]]])]
        iffs = [None, 'field', 'lambda']
        one = singles + arrays
        two = []
        for a, b in itertools.product(singles[:6], arrays[:8]):
            two.append((a, b))
            two.append((b, a))
        for a, b in itertools.combinations(singles[:5], 2):
            two.append((a, [b[0] + '2'] + b[1:]))
        if tier == 'quick':
            two = two[::3]
        for ign, ill in excls:
            for iff in iffs:
                if tier == 'quick' and iff == 'lambda' and (ign or ill):
                    continue
                for b in one:
                    out.append({'type': t, 'bins': [b], 'ignore': ign, 'illegal': ill, 'iff': iff})
                for a, b in two:
                    if iff == 'lambda' and tier == 'quick':
                        continue
                    out.append({'type': t, 'bins': [a, b], 'ignore': ign, 'illegal': ill, 'iff': iff})
                for abm in (1, 2, 3, 5, 64):
                    out.append({'type': t, 'bins': None, 'auto_bin_max': abm, 'ignore': ign, 'illegal': ill, 'iff': iff})
    # wider type for auto-bins
    for abm in (1, 3, 5, 16, 64):
        for ign in (None, [['ig', [0, [200, 255]]]]):
            out.append({'type': ('bit', 8), 'bins': None, 'auto_bin_max': abm, 'ignore': ign, 'illegal': None, 'iff': None})
    if tier != 'quick':
        for abm in (2, 3, 7):
            out.append({'type': ('bit', 4), 'bins': None, 'auto_bin_max': abm, 'ignore': [['ig', [5]]], 'illegal': None, 'iff': 'field'})
    # enum coverpoints
    for ign, ill in [(None, None), ([['ig', [1]]], None), (None, [['il', [7]]]), ([['ig', [0]]], [['il', [4]]])]:
        for iff in (None, 'field'):
            out.append({'type': ('enum',), 'bins': None, 'ignore': ign, 'illegal': ill, 'iff': iff})
    return out


def expected_after(cp, seq):
    """seq: list of (value, iff_on) -> (regular, ignore, illegal) counters"""
    bins, ign, ill = cov.ref_bins(cp)
    r = [0] * len(bins)
    gi = [0] * len(ign)
    li = [0] * len(ill)
    for v, on in seq:
        if not on:
            continue
        for i, b in enumerate(bins):
            if v in b:
                r[i] += 1
        for i, b in enumerate(ign):
            if v in b:
                gi[i] += 1
        for i, b in enumerate(ill):
            if v in b:
                li[i] += 1
    return r, gi, li


def run_case(cp):
    from vsc.impl.coverage_registry import CoverageRegistry
    cnt = {"executions": 0, "transitions": 0, "states": 0, "nontrivial": 0}
    viol = []
    spec = {'cps': [cp]}

    def bad(sub, what, obs, exp, seq):
        if len(viol) < 4:
            viol.append({"subcheck": sub, "case": {"cp": cp, "seq": seq}, "observed": obs, "expected": exp,
                         "what": "coverpoint %r: %s" % ({k: v for k, v in cp.items() if v is not None}, what)})
    bins, ign, ill = cov.ref_bins(cp)
    if len(bins) > 1:
        cnt["nontrivial"] = 1
    tv = cov.type_values(cp['type'])
    seen = set()

    def run_seq(seq):
        CoverageRegistry.clear()
        CG = cov.build_cg(spec)
        cg = CG()
        m = cg.get_model().coverpoint_l[0]
        for v, on in seq:
            cg.sample(*cov.sample_args(spec, [v], [on]))
        cnt["executions"] += 1
        cnt["transitions"] += len(seq)
        return cov.cp_hits(m), cov.cp_names(m), m
    try:
        (r0, g0, l0), names, m = run_seq([])
    except Exception as e:
        if not bins:
            return {"cnt": cnt, "viol": viol}     # nothing left to cover: construction may refuse
        bad("construction", "building the covergroup raised %s %s" % (type(e).__name__, str(e)[:100]), [type(e).__name__], "builds", [])
        return {"cnt": cnt, "viol": viol}
    if len(r0) != len(bins) or len(g0) != len(ign) or len(l0) != len(ill):
        bad("bin_count", "creates %d regular / %d ignore / %d illegal bins (names %r); the statement gives %d / %d / %d "
            "(value sets %r)" % (len(r0), len(g0), len(l0), names, len(bins), len(ign), len(ill), [sorted(b) for b in bins][:12]),
            [len(r0), len(g0), len(l0)], [len(bins), len(ign), len(ill)], [])
        return {"cnt": cnt, "viol": viol}
    if False and len(set(names)) != len(names):   # names are C13 business (consistency between representations)
        bad("bin_names_not_distinct", "bin names %r are not distinct" % (names,), names, "distinct", [])
    has_iff = bool(cp.get('iff'))
    # (specification, value) table: every value of the type from a fresh covergroup
    for v in tv:
        for on in ((True, False) if has_iff else (True,)):
            seq = [(v, on)]
            got, _, _ = run_seq(seq)
            exp = expected_after(cp, seq)
            seen.add(repr(got))
            if list(got) != list(exp):
                bad("single_sample", "sample %r (iff %s) from a fresh covergroup gives regular/ignore/illegal counters %r, the "
                    "statement gives %r (bin value sets %r)" % (v, on, got, exp, [sorted(b) for b in bins][:12]),
                    [list(x) for x in got], [list(x) for x in exp], seq)
    # sequences of length <= 3 over representatives: one per bin, one miss, one ignored/illegal value
    reps = []
    for b in bins[:3]:
        reps.append(sorted(b)[0])
    allb = set().union(*bins) if bins else set()
    miss = [v for v in tv if v not in allb and not any(v in s for s in ign + ill)]
    if miss:
        reps.append(miss[0])
    for s in (ign + ill)[:2]:
        reps.append(sorted(s)[0])
    reps = list(dict.fromkeys(reps))[:5]
    alphabet = [(v, True) for v in reps] + ([(reps[0], False)] if has_iff and reps else [])
    if len(tv) <= 16:
        for n in (2, 3):
            for seq in itertools.product(alphabet, repeat=n):
                seq = list(seq)
                got, _, _ = run_seq(seq)
                exp = expected_after(cp, seq)
                seen.add(repr(got))
                if list(got) != list(exp):
                    bad("sequence", "samples %r give counters %r, the statement gives %r" % (seq, got, exp),
                        [list(x) for x in got], [list(x) for x in exp], seq)
                    break
    cnt["states"] = len(seen)
    CoverageRegistry.clear()
    return {"cnt": cnt, "viol": viol}


def shared_spec_case(job):
    """one bin-specification OBJECT used by two coverpoints and by two covergroup instances (a module-level
    bins table): building the first model must not consume the specification"""
    from vsc.impl.coverage_registry import CoverageRegistry
    w, entries = job
    cnt = {"executions": 0, "transitions": 0, "states": 0, "nontrivial": 1}
    viol = []
    CoverageRegistry.clear()
    table = {}
    for b in entries:
        if b[1] == 'bin':
            table[b[0]] = vsc.bin(*cov._args(b[2:]))
        else:
            table[b[0]] = vsc.bin_array([] if b[2] is None else [b[2]], *cov._args(b[3:]))

    @vsc.covergroup
    class SCG(object):
        def __init__(self):
            self.with_sample(dict(a=vsc.bit_t(w), b=vsc.bit_t(w)))
            self.cp_a = vsc.coverpoint(self.a, bins=table)
            self.cp_b = vsc.coverpoint(self.b, bins=table)
    cp = {'type': ('bit', w), 'bins': entries}
    bins, _, _ = cov.ref_bins(cp)
    exp = [sum(1 for v in range(1 << w) if v in b) for b in bins]
    try:
        insts = [SCG(), SCG()]
    except Exception as e:
        viol.append({"subcheck": "shared_spec", "case": {"w": w, "entries": entries}, "observed": [type(e).__name__, str(e)[:100]],
                     "expected": "builds", "what": "building two coverpoints / two instances from one specification object raised %s %s" % (
                         type(e).__name__, str(e)[:100])})
        return {"cnt": cnt, "viol": viol}
    for k, cg in enumerate(insts):
        for v in range(1 << w):
            cg.sample(v, v)
            cnt["executions"] += 1
        for j, m in enumerate(cg.get_model().coverpoint_l):
            got = cov.cp_hits(m)[0]
            if got != exp:
                viol.append({"subcheck": "shared_spec", "case": {"w": w, "entries": entries}, "observed": got, "expected": exp,
                             "what": "bins %r shared by two coverpoints and two instances: after sampling every value once, coverpoint %d of "
                                     "instance %d holds %r, the statement gives %r" % (entries, j, k, got, exp)})
    cnt["transitions"] = cnt["executions"]
    cnt["states"] = 4
    CoverageRegistry.clear()
    return {"cnt": cnt, "viol": viol[:3]}


def shared_jobs():
    out = []
    for w, entries in [(4, [['a', 'arr', 4, [0, 15]]]), (4, [['a', 'arr', 3, [0, 15]]]), (4, [['a', 'arr', 2, [1, 3], [8, 12]]]),
                       (4, [['a', 'arr', 5, 0, [2, 9], 15]]), (4, [['s', 'bin', 1, [4, 6]], ['a', 'arr', 3, [7, 15]]]),
                       (4, [['a', 'arr', None, [0, 3], 9]]), (3, [['a', 'arr', 3, [0, 7]], ['b', 'arr', 2, [0, 7]]]),
                       (5, [['a', 'arr', 6, [0, 31]]]), (4, [['a', 'arr', 7, [0, 15]]]), (4, [['x', 'bin', [0, 15]]])]:
        out.append((w, entries))
    return out


def classify(v):
    return None


def run(res, only=None):
    cases = common.rotate(specs(res.tier), res.seed)
    out = common.pmap(run_case, cases)
    nontriv = 0
    for c, r in common.good(cases, out, res):
        cnt = r["cnt"]
        res.add("traces_validated_against_impl", cnt["executions"])
        res.add("transitions", cnt["transitions"])
        res.add("states", cnt["states"])
        res.add("evaluations", cnt["executions"])
        nontriv += cnt["nontrivial"]
        res.subcount("coverpoints", "specifications")
        for v in r["viol"]:
            v["finding"] = classify(v)
            res.violation(v)
    sj = shared_jobs()
    for j, r in common.good(sj, common.pmap(shared_spec_case, sj, chunk=1), res):
        cnt = r["cnt"]
        res.add("traces_validated_against_impl", cnt["executions"])
        res.add("transitions", cnt["transitions"])
        res.add("states", cnt["states"])
        res.add("evaluations", cnt["executions"])
        nontriv += 1
        res.subcount("coverpoints", "shared_specifications")
        for v in r["viol"]:
            v["finding"] = classify(v)
            res.violation(v)
    res.cov["distinct_nontrivial"] = nontriv
    res.cov["rule"] = ("one case = one coverpoint specification with every value of its type sampled from a fresh covergroup and "
                       "all sample sequences of length <=3 over bin representatives; non-trivial if it has more than one bin")
    res.cov["exhaustive"] = True
    res.sample(cases[0])
    res.sample(cases[len(cases) // 2])
    res.assumptions.append("reference partitioner mc/cov.py written from the statement; bins identified by position, names only required to be distinct")


def replay(rec):
    if rec["subcheck"] == "shared_spec":
        r = shared_spec_case((rec["case"]["w"], rec["case"]["entries"]))
        return (not r["viol"]), (r["viol"][0]["what"] if r["viol"] else "counters match")
    cp = rec["case"]["cp"]
    cp = dict(cp)
    cp['type'] = tuple(cp['type'])
    r = run_case(cp)
    bad = [v for v in r["viol"] if v["subcheck"] == rec["subcheck"]]
    return (not bad), (bad[0]["what"] if bad else "counters match the statement")

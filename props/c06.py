"""C06 - inline and dynamic constraints bind to exactly one call and the right object.

Explicit-state BFS over histories of {create another instance, randomize,
randomize_with(inline set)} on a population of instances of one class K
(a,b bit(2); block a<=b; dynamic d1: a<2, d2: b>1) and a holder H with a
rand list of two K (indexed dynamic references).  Every randomizing step is
explored over all environment-answer sequences with at most two non-default
answers (enough to steer both fields of an instance to any value pair); the
set of (a,b) pairs reachable for each instance under the call must EQUAL the
reference solution set of (class blocks /\\ that call's inline set) on that
very instance, all other instances must be untouched.  The hidden fingerprint
(pretty-printed model of every instance + which instance each class-level
dynamic wrapper points to) makes any trace left by an inline call a new state.
"""
import itertools

from mc import common, bfs
from mc.common import vsc, Script, SRandState, explore

PID = "C06"


def mk_classes():
    @vsc.randobj
    class K(object):
        def __init__(self):
            self.a = vsc.rand_bit_t(2)
            self.b = vsc.rand_bit_t(2)

        @vsc.constraint
        def c0(self):
            self.a <= self.b

        @vsc.dynamic_constraint
        def d1(self):
            self.a < 2

        @vsc.dynamic_constraint
        def d2(self):
            self.b > 1

    @vsc.randobj
    class J(object):
        """no always-on block relates a and b: they live in different rand sets until a call's Boolean
        combination of dynamic blocks relates them"""
        def __init__(self):
            self.a = vsc.rand_bit_t(2)
            self.b = vsc.rand_bit_t(2)

        @vsc.dynamic_constraint
        def d1(self):
            self.a < 2

        @vsc.dynamic_constraint
        def d2(self):
            self.b > 1

    @vsc.randobj
    class G(object):
        """two sub-objects of class K; a class-level block references the dynamic block of ONE of them"""
        def __init__(self):
            self.p = vsc.rand_attr(K())
            self.q = vsc.rand_attr(K())

        @vsc.constraint
        def cg(self):
            self.q.d2()

    @vsc.randobj
    class H(object):
        def __init__(self):
            self.l = vsc.rand_list_t(K())
            for _ in range(2):
                self.l.append(K())
    return K, H, J, G


SLOTS = ["k0", "k1", "k2", "h0", "j0", "j1", "g0"]

# inline menu for a K instance: name -> (builder(it), predicate(a,b))
K_INLINE = {
    "a==1": (lambda it: it.a == 1, lambda a, b: a == 1),
    "b==2": (lambda it: it.b == 2, lambda a, b: b == 2),
    "d1": (lambda it: it.d1(), lambda a, b: a < 2),
    "d2": (lambda it: it.d2(), lambda a, b: b > 1),
    "d1&d2": (lambda it: it.d1() & it.d2(), lambda a, b: a < 2 and b > 1),
    "d1|d2": (lambda it: it.d1() | it.d2(), lambda a, b: a < 2 or b > 1),
    "~d1": (lambda it: ~it.d1(), lambda a, b: not (a < 2)),
    "~d1&d2": (lambda it: (~it.d1()) & it.d2(), lambda a, b: (not a < 2) and b > 1),
    "d1;b==3": (lambda it: (it.d1(), it.b == 3), lambda a, b: a < 2 and b == 3),
}
# inline menu for the holder: name -> (builder(it), predicate per element index -> pred(a,b))
H_INLINE = {
    "l[0].d1": (lambda it: it.l[0].d1(), {0: lambda a, b: a < 2}),
    "l[1].d2": (lambda it: it.l[1].d2(), {1: lambda a, b: b > 1}),
    "l[0].d1&l[1].d2": (lambda it: it.l[0].d1() & it.l[1].d2(), {0: lambda a, b: a < 2, 1: lambda a, b: b > 1}),
    "l[1].a==3": (lambda it: it.l[1].a == 3, {1: lambda a, b: a == 3}),
    "~l[1].d1": (lambda it: ~it.l[1].d1(), {1: lambda a, b: not a < 2}),
}


J_INLINE = {
    "d1|d2": (lambda it: it.d1() | it.d2(), lambda a, b: a < 2 or b > 1),
    "d2|d1": (lambda it: it.d2() | it.d1(), lambda a, b: a < 2 or b > 1),
    "d1&d2": (lambda it: it.d1() & it.d2(), lambda a, b: a < 2 and b > 1),
    "d2&d1": (lambda it: it.d2() & it.d1(), lambda a, b: a < 2 and b > 1),
    "~d1|d2": (lambda it: (~it.d1()) | it.d2(), lambda a, b: (not a < 2) or b > 1),
    "d2&~d1": (lambda it: it.d2() & (~it.d1()), lambda a, b: b > 1 and not a < 2),
    "b==0;d1|d2": (lambda it: (it.b == 0, it.d1() | it.d2()), lambda a, b: b == 0 and (a < 2 or b > 1)),
    "d1": (lambda it: it.d1(), lambda a, b: a < 2),
}


# holder with two sub-objects: name -> (builder, {sub-object: predicate})
G_INLINE = {
    "p.d1": (lambda it: it.p.d1(), {"p": lambda a, b: a < 2}),
    "q.d1": (lambda it: it.q.d1(), {"q": lambda a, b: a < 2}),
    "p.d2&q.d1": (lambda it: it.p.d2() & it.q.d1(), {"p": lambda a, b: b > 1, "q": lambda a, b: a < 2}),
    "~p.d1": (lambda it: ~it.p.d1(), {"p": lambda a, b: not a < 2}),
    "p.a==3": (lambda it: it.p.a == 3, {"p": lambda a, b: a == 3}),
}


def base_pred(a, b):
    return a <= b


class World(object):
    def __init__(self):
        self.K, self.H, self.J, self.G = mk_classes()
        self.objs = {}

    def create(self, slot):
        self.objs[slot] = self.H() if slot == "h0" else self.G() if slot == "g0" else self.J() if slot.startswith("j") else self.K()

    def instances(self, slot):
        o = self.objs[slot]
        if slot == "h0":
            return [("h0.l[0]", o.l[0]), ("h0.l[1]", o.l[1])]
        if slot == "g0":
            return [("g0.p", o.p), ("g0.q", o.q)]
        return [(slot, o)]

    def all_instances(self):
        out = []
        for s in SLOTS:
            if s in self.objs:
                out += self.instances(s)
        return out

    def values(self):
        return {p: (int(o.a), int(o.b)) for p, o in self.all_instances()}

    def call(self, op, script):
        kind, slot = op[0], op[1]
        o = self.objs[slot]
        o.set_randstate(SRandState(script))
        if kind == "rand":
            return common.outcome(o.randomize)
        bld = (H_INLINE if slot == "h0" else G_INLINE if slot == "g0" else J_INLINE if slot.startswith("j") else K_INLINE)[op[2]][0]

        def f():
            with o.randomize_with() as it:
                bld(it)
        return common.outcome(f)

    def key(self):
        from vsc.visitors.model_pretty_printer import ModelPrettyPrinter
        from vsc.impl import ctor, expr_mode
        created = tuple(s for s in SLOTS if s in self.objs)
        hidden = []
        for p, o in self.all_instances():
            m = o.get_model()
            txt = ModelPrettyPrinter.print(m)
            hidden.append((p, common.jhash(txt), len(m.constraint_model_l), len(m.constraint_dynamic_model_l)))
        # which live instance does each class-level dynamic wrapper resolve to?
        wr = []
        for nm in ("d1", "d2"):
            w = None
            for C in self.K.__mro__:
                if nm in C.__dict__:
                    w = C.__dict__[nm]
                    break
            tgt = None
            for p, o in self.all_instances():
                m = o.get_model()
                if w is not None and any(c is w.model for c in m.constraint_dynamic_model_l):
                    tgt = p
            wr.append((nm, tgt))
        stacks = (len(ctor.constraint_scope_stack), len(ctor.expr_l), len(ctor.srcinfo_mode_s),
                  len(expr_mode._expr_mode), len(expr_mode._raw_mode))
        return (created, tuple(hidden), tuple(wr), stacks)


def replay_hist(hist):
    w = World()
    w.create("k0")
    for op in hist:
        if op[0] == "create":
            w.create(op[1])
        else:
            w.call(op, Script([]))
    return w


def enabled_ops(w):
    ops = []
    for s in SLOTS:
        if s not in w.objs:
            ops.append(["create", s])
    for s in SLOTS:
        if s in w.objs:
            ops.append(["rand", s])
            for nm in (H_INLINE if s == "h0" else G_INLINE if s == "g0" else J_INLINE if s.startswith("j") else K_INLINE):
                ops.append(["with", s, nm])
    return ops


def expected_sets(op):
    """instance path -> set of allowed (a,b)"""
    slot = op[1]
    full = [(a, b) for a in range(4) for b in range(4) if base_pred(a, b)]
    if slot == "h0":
        preds = H_INLINE[op[2]][1] if op[0] == "with" else {}
        out = {}
        for i in (0, 1):
            p = preds.get(i)
            out["h0.l[%d]" % i] = set(t for t in full if p is None or p(*t))
        return out
    if slot == "g0":
        preds = G_INLINE[op[2]][1] if op[0] == "with" else {}
        out = {}
        for sub in ("p", "q"):
            pr = preds.get(sub)
            out["g0." + sub] = set(t for t in full if (pr is None or pr(*t)) and (sub != "q" or t[1] > 1))
        return out
    if slot.startswith("j"):
        p = J_INLINE[op[2]][1] if op[0] == "with" else None
        return {slot: set((a, b) for a in range(4) for b in range(4) if p is None or p(a, b))}
    p = K_INLINE[op[2]][1] if op[0] == "with" else None
    return {slot: set(t for t in full if p is None or p(*t))}


def check_call(hist, op, bound=2):
    viol = []
    cnt = {"executions": 0, "rand_steps": 1, "env_transitions": 0}
    exp = expected_sets(op)
    reached = {p: set() for p in exp}
    st = {}

    def run(s):
        w = replay_hist(hist)
        before = w.values()
        out = w.call(op, s)
        return out, before, w.values()
    sat_all = all(len(v) > 0 for v in exp.values())
    seen_pref = set()
    for bnd in (bound, bound + 1, bound + 2, None):
      # raise the bound (up to the complete tree) while solutions are missing:
      # a multi-range domain needs an extra deviation (range pick) per field
      if bnd != bound and (viol or st.get("capped") or not sat_all or
                           not any(exp[p] - reached[p] for p in exp)):
          break
      for x in explore(run, bound=bnd, cap=6000, state=st):
        out, before, after = x.obs
        k_ = tuple(x.choices)
        if k_ in seen_pref:
            continue
        seen_pref.add(k_)
        cnt["executions"] += 1
        cnt["env_transitions"] += len(x.trace)
        if out[0] != "ok":
            if sat_all or out[0] != "solvefail":
                viol.append({"subcheck": "unexpected_failure", "case": {"hist": hist, "op": op, "choices": x.choices},
                             "observed": list(out), "expected": "returns" if sat_all else "SolveFailure",
                             "what": "%r after %r ended with %r" % (op, hist, out)})
            continue
        for p, v in after.items():
            if p in exp:
                reached[p].add(v)
                if v not in exp[p] and len(viol) < 6:
                    viol.append({"subcheck": "inline_or_class_constraint_violated",
                                 "case": {"hist": hist, "op": op, "choices": x.choices}, "observed": [p, list(v)],
                                 "expected": sorted(map(list, exp[p])),
                                 "what": "%r after %r: instance %s got (a,b)=%r, allowed %r" % (op, hist, p, v, sorted(exp[p]))})
            elif v != before[p] and len(viol) < 6:
                viol.append({"subcheck": "other_instance_changed", "case": {"hist": hist, "op": op, "choices": x.choices},
                             "observed": [p, list(v)], "expected": list(before[p]),
                             "what": "%r changed instance %s from %r to %r" % (op, p, before[p], v)})
    if st.get("capped"):
        cnt["capped"] = 1
        return viol, cnt
    for p in exp:
        missing = sorted(exp[p] - reached[p])
        if missing and all(len(v) > 0 for v in exp.values()) and len(viol) < 6:
            viol.append({"subcheck": "over_constrained", "case": {"hist": hist, "op": op, "choices": None},
                         "observed": sorted(map(list, reached[p])), "expected": sorted(map(list, exp[p])),
                         "what": "%r after %r: instance %s never gets %r although (class blocks /\\ this call's inline set) allows "
                                 "them - something else constrains the call (a leftover inline block, or a dynamic block "
                                 "bound to another call/instance)" % (op, hist, p, missing[:8])})
    return viol, cnt


def expand(hist):
    w = replay_hist(hist)
    succ = []
    viol = []
    cnt = {"executions": 0, "rand_steps": 0, "env_transitions": 0, "api_ops": 0}
    for op in enabled_ops(w):
        cnt["api_ops"] += 1
        if op[0] != "create":
            v, c = check_call(hist, op)
            viol += v
            for k, n in c.items():
                cnt[k] = cnt.get(k, 0) + n
        w2 = replay_hist(hist + [op])
        succ.append((op, w2.key()))
    return {"succ": succ, "viol": viol[:8], "cnt": cnt}


def init_key():
    return replay_hist([]).key()


def classify(v):
    return None


# ---------------------------------------------------------------------------
# dynamic constraints that contain soft statements: histories of calls on ONE object
# ---------------------------------------------------------------------------

def mk_ds():
    @vsc.randobj
    class DS(object):
        def __init__(self):
            self.a = vsc.rand_bit_t(3)
            self.b = vsc.rand_bit_t(2)

        @vsc.dynamic_constraint
        def small(self):
            self.a < 4
            vsc.soft(self.a == 1)

        @vsc.dynamic_constraint
        def big(self):
            self.a >= 4
            vsc.soft(self.a == 6)

        # a dynamic constraint that references one whose name sorts after its own (elaborated later)
        @vsc.dynamic_constraint
        def afwd(self):
            self.tiny()

        @vsc.dynamic_constraint
        def tiny(self):
            self.a < 2
    return DS


def _s1(it):
    it.small()


def _s2(it):
    ~it.small()


def _s3(it):
    it.small() | it.big()
    it.a > 4


def _s4(it):
    it.big()
    vsc.soft(it.a == 5)       # stated after the reference: the later soft wins


def _s0(it):
    it.a != 0


def _s5(it):
    it.afwd()


# scenario -> (inline block, values of a the call may return): a referenced block imposes its hard statements and,
# when referenced as a statement, its softs (greedy, later wins); as a Boolean term only its hard statements compose
DS_SCN = {"ref": (_s1, {1}), "not": (_s2, {4, 5, 6, 7}), "or": (_s3, {5, 6, 7}), "ref+soft": (_s4, {5}), "none": (_s0, set(range(1, 8))),
          "fwdref": (_s5, {0, 1})}


def ds_case(hist):
    DS = mk_ds()
    viol = []
    cnt = {"executions": 0, "env_transitions": 0, "rand_steps": 1}
    reached = set()

    def run(s):
        o = DS()
        for k, nm in enumerate(hist):
            o.set_randstate(SRandState(s if k == len(hist) - 1 else Script([])))

            def f():
                with o.randomize_with() as it:
                    DS_SCN[nm][0](it)
            out = common.outcome(f)
            if out[0] != "ok":
                return out, k, None
        return out, len(hist) - 1, int(o.a)
    st = {}
    try:
        for x in explore(run, bound=None, cap=6000, state=st):
            out, k, a = x.obs
            cnt["executions"] += 1
            cnt["env_transitions"] += len(x.trace)
            if out[0] != "ok":
                viol.append({"subcheck": "unexpected_failure", "case": {"ds_hist": list(hist), "choices": x.choices}, "observed": list(out),
                             "expected": "returns", "what": "dynamic blocks with softs, inline history %r: call %d ended with %r" % (list(hist), k, out)})
                break
            reached.add(a)
    except common.HarnessError as e:
        # every execution builds a FRESH object and replays a prefix of recorded answers: if the same answers lead to
        # another sequence of questions, the calls depend on objects of earlier executions (a dynamic reference bound
        # to another instance) - which is what C06 forbids
        viol.append({"subcheck": "call_depends_on_other_instances", "case": {"ds_hist": list(hist), "choices": None},
                     "observed": str(e)[:160], "expected": "a fresh object behaves the same under the same answers",
                     "what": "dynamic blocks, inline history %r on a fresh object: %s - the call is influenced by instances "
                             "created in earlier executions" % (list(hist), str(e)[:120])})
        return {"viol": viol, "cnt": cnt, "capped": False}
    exp = DS_SCN[hist[-1]][1]
    if not viol and not st.get("capped") and reached != exp:
        viol.append({"subcheck": "inline_or_class_constraint_violated" if reached - exp else "solution_unreachable",
                     "case": {"ds_hist": list(hist), "choices": None}, "observed": sorted(reached), "expected": sorted(exp),
                     "what": "dynamic blocks with soft statements, inline history %r: the last call returns a in %r, the reference "
                             "(independent of the earlier calls) allows exactly %r" % (list(hist), sorted(reached), sorted(exp))})
    return {"viol": viol, "cnt": cnt, "capped": bool(st.get("capped"))}


def ds_histories(tier):
    import itertools
    names = sorted(DS_SCN)
    out = []
    for n in ((1, 2, 3) if tier == "quick" else (1, 2, 3, 4)):
        for h in itertools.product(names, repeat=n):
            out.append(tuple(h))
    return out


def run(res, only=None):
    depth = 3 if res.tier == "quick" else 4
    stats, viols, cnts = bfs.search(expand, init_key(), depth, seed=res.seed, max_states=20000)
    res.cov["states"] = stats["states"]
    res.cov["transitions"] = stats["transitions"] + cnts.get("env_transitions", 0)
    res.cov["traces_validated_against_impl"] = cnts.get("executions", 0) + stats["transitions"]
    res.cov["evaluations"] = cnts.get("executions", 0)
    res.cov["distinct_nontrivial"] = stats["states"]
    res.cov["rule"] = ("a state = (created instances in order, hash of the pretty-printed model of every instance, target instance "
                       "of each class-level dynamic wrapper, depths of the shared construction stacks); distinct by construction")
    res.cov["bfs"] = stats
    res.cov["randomizing_steps_explored"] = cnts.get("rand_steps", 0)
    res.cov["exhaustive"] = not stats["capped"]
    res.cov["bounds"] = {"depth": depth, "deviation_bound_per_call": 2, "instances": SLOTS,
                         "inline_menu": sorted(K_INLINE) + sorted(H_INLINE)}
    res.sample({"history": [["create", "k1"], ["with", "k0", "d1"], ["rand", "k0"]]})
    res.sample({"history": [["create", "h0"], ["with", "h0", "l[0].d1&l[1].d2"]]})
    for v in viols:
        v["finding"] = classify(v)
        res.violation(v)
    hs = common.rotate(ds_histories(res.tier), res.seed)
    for h, r in common.good(hs, common.pmap(ds_case, hs), res):
        res.add("traces_validated_against_impl", r["cnt"]["executions"])
        res.add("evaluations", r["cnt"]["executions"])
        res.add("transitions", r["cnt"]["env_transitions"])
        res.subcount("dynamic_with_soft", "histories")
        res.subcount("dynamic_with_soft", "capped", 1 if r["capped"] else 0)
        for v in r["viol"]:
            v["finding"] = classify(v)
            res.violation(v)


def replay(rec):
    c = rec["case"]
    if c.get("ds_hist"):
        r = ds_case(tuple(c["ds_hist"]))
        bad = [x for x in r["viol"] if x["subcheck"] == rec["subcheck"]]
        return (not bad), (bad[0]["what"] if bad else "holds")
    v, cnt = check_call(c["hist"], c["op"])
    bad = [x for x in v if x["subcheck"] == rec["subcheck"]]
    return (not bad), (bad[0]["what"] if bad else "reachable set equals the reference solution set")

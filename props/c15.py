"""C15 - dist and weighted selection follow their weights; zero weight = never.

Every weight list of 1-3 entries (values / ranges, weights 0..3 or given by a
non-random field) x accompanying constraints, explored over the COMPLETE tree
of environment answers with exact Fraction probabilities:
  * mass on zero-weight or unlisted values is exactly 0 in every program;
  * when nothing else constrains the field, P(entry i) = w_i / sum(w) and
    values inside a range are equiprobable (exact equality of Fractions);
  * distselect / randselect: P(i) = w_i / sum(w) exactly (module random
    replaced by the scripted source).
"""
import itertools
from fractions import Fraction

from mc import common, sweep, ref, gen, prog as P
from mc.common import Script, SRandState, SRng, explore, vsc
from mc.gen import U2, U3, S3, fld
from props.c01 import _detuple

PID = "C15"
A_, B_, X_ = ('f', 'a'), ('f', 'b'), ('f', 'x')


def entry_values(val):
    if isinstance(val, list):
        return list(range(val[0], val[1] + 1))
    return [val]


def dist_reference(entries, weights):
    """exact P(value) when only the dist constrains the field"""
    tot = sum(weights)
    d = {}
    for (val), w in zip(entries, weights):
        vs = entry_values(val)
        for v in vs:
            d[v] = d.get(v, Fraction(0)) + Fraction(w, tot) / len(vs)
    return {k: v for k, v in d.items() if v != 0}


def run_case(case):
    prog = case['prog']
    entries = case['entries']        # list of value | [lo,hi]
    cnt = {"executions": 0, "transitions": 0, "states": 0, "nontrivial": 0, "capped": 0, "exact_checked": 0}
    viol = []
    rn = sweep.rand_names(prog)
    R = sweep.Runner(prog)
    types = P.types_of(prog)

    def bad(sub, X, choices, what, obs, exp):
        if len(viol) < 4:
            viol.append({"subcheck": sub, "case": {"prog": prog, "X": X, "choices": choices, "entries": entries,
                                                  "wexpr": case['wexpr'], "exact": case['exact']},
                         "observed": obs, "expected": exp, "what": what})

    for X in case['X']:
        weights = [w if isinstance(w, int) else X[w[1]] for w in case['wexpr']]
        if sum(weights) == 0:
            continue
        allowed = set()
        for val, w in zip(entries, weights):
            if w > 0:
                allowed.update(entry_values(val))
        for val, w in zip(entries, weights):
            if w == 0:
                allowed.difference_update(entry_values(val))
        # reference satisfiability of the whole program restricted to allowed values
        doms = sweep.field_doms(prog)
        hard = [s for s in sweep.active_stmts(prog) if s[0] not in ('dist', 'soft')]
        vals = dict(X)
        feas = []
        amb = False
        for tup in itertools.product(*[doms[n] for n in rn]):
            for n, v in zip(rn, tup):
                vals[n] = v
            if vals['a'] not in allowed:
                continue
            t = ref.block_truth(hard, types, vals)
            if t is None:
                amb = True
            elif t:
                feas.append(tup)
        if amb:
            continue
        st = {}
        dist = {}
        total = Fraction(0)
        for x in explore(lambda s: R.execute(X, s), bound=None, cap=case.get('cap', 20000), state=st):
            out, vals_o, mism, _ = x.obs
            cnt["executions"] += 1
            cnt["transitions"] += len(x.trace) + 1
            if out[0] == 'ok':
                a = vals_o['a']
                if a not in allowed:
                    bad("zero_or_unlisted_value", X, x.choices,
                        "dist %r weights %r: call returned a=%r which is %s" % (
                            entries, weights, a, "not listed with a non-zero weight"), a, sorted(allowed))
                key = a
            else:
                key = out[0]
                if feas:
                    bad("dist_made_it_fatal", X, x.choices,
                        "feasible (e.g. %r) but the call ended with %r" % (feas[0], out), list(out), "returns")
            dist[key] = dist.get(key, Fraction(0)) + x.prob
            total += x.prob
        if st.get("capped") or st.get("wide"):
            cnt["capped"] += 1
            continue
        if total != 1:
            raise common.HarnessError("probability mass %s != 1 on a complete tree" % total)
        cnt["states"] += len(dist)
        if len([w for w in weights if w > 0]) > 1:
            cnt["nontrivial"] += 1
        if case['exact']:
            exp = dist_reference(entries, weights)
            cnt["exact_checked"] += 1
            if dist != exp:
                bad("wrong_probability", X, None,
                    "dist %r weights %r: exact outcome distribution %s differs from weight/total %s" % (
                        entries, weights, {k: str(v) for k, v in sorted(dist.items(), key=str)},
                        {k: str(v) for k, v in sorted(exp.items())}),
                    {str(k): str(v) for k, v in dist.items()}, {str(k): str(v) for k, v in exp.items()})
    return {"cnt": cnt, "viol": viol}


def foreach_dist_case(job):
    """dist on the elements of a list inside a foreach (the weights are copied when the foreach is expanded):
    the exact marginal of every element must equal weight/total with uniform ranges"""
    entries, weights, size = job
    cnt = {"executions": 0, "transitions": 0, "states": 0, "nontrivial": 1, "capped": 0, "exact_checked": 0}
    viol = []

    @vsc.randobj
    class DL(object):
        def __init__(self):
            self.l = vsc.rand_list_t(vsc.bit_t(3), size)

        @vsc.constraint
        def cd(self):
            with vsc.foreach(self.l, idx=True) as i:
                vsc.dist(self.l[i], [vsc.weight(tuple(e) if isinstance(e, list) else e, w) for e, w in zip(entries, weights)])

    def run(s):
        o = DL()
        o.set_randstate(SRandState(s))
        out = common.outcome(o.randomize)
        return out[0], tuple(int(x) for x in o.l)
    st = {}
    margs = [dict() for _ in range(size)]
    total = Fraction(0)
    for x in explore(run, bound=None, cap=40000, state=st):
        cnt["executions"] += 1
        cnt["transitions"] += len(x.trace) + 1
        kind, vals = x.obs
        if kind != "ok":
            viol.append({"subcheck": "dist_made_it_fatal", "case": {"foreach": True, "entries": entries, "weights": weights, "size": size},
                         "observed": kind, "expected": "returns", "what": "dist inside foreach: call ended with %r" % kind})
            break
        for i, v in enumerate(vals):
            margs[i][v] = margs[i].get(v, Fraction(0)) + x.prob
        total += x.prob
    if st.get("capped") or viol:
        cnt["capped"] = 1 if st.get("capped") else 0
        return {"cnt": cnt, "viol": viol}
    exp = dist_reference(entries, weights)
    cnt["exact_checked"] = size
    cnt["states"] = sum(len(m) for m in margs)
    for i, m in enumerate(margs):
        if m != exp:
            viol.append({"subcheck": "wrong_probability", "case": {"foreach": True, "entries": entries, "weights": weights, "size": size},
                         "observed": {str(k): str(v) for k, v in m.items()}, "expected": {str(k): str(v) for k, v in exp.items()},
                         "what": "dist %r weights %r on list element %d inside a foreach: exact marginal %s, weight/total gives %s" % (
                             entries, weights, i, {k: str(v) for k, v in sorted(m.items())}, {k: str(v) for k, v in sorted(exp.items())})})
            break
    return {"cnt": cnt, "viol": viol}


def changing_weights_case(job):
    """weights given by non-random fields that the user changes between calls: the exact distribution of the
    judged call follows the weights of that call, whatever the earlier calls on the same object used"""
    entries, history = job          # history: list of weight vectors; the last one is judged
    cnt = {"executions": 0, "transitions": 0, "states": 0, "nontrivial": 1, "capped": 0, "exact_checked": 0}
    viol = []
    n = len(entries)

    @vsc.randobj
    class DW(object):
        def __init__(self):
            self.a = vsc.rand_bit_t(3)
            self.w0 = vsc.bit_t(4)
            self.w1 = vsc.bit_t(4)
            self.w2 = vsc.bit_t(4)

        @vsc.constraint
        def cd(self):
            ws = [self.w0, self.w1, self.w2]
            vsc.dist(self.a, [vsc.weight(tuple(e) if isinstance(e, list) else e, ws[i]) for i, e in enumerate(entries)])

    def run(s):
        o = DW()
        for k, wv in enumerate(history):
            for i in range(n):
                setattr(o, "w%d" % i, wv[i])
            o.set_randstate(SRandState(s if k == len(history) - 1 else Script([])))
            out = common.outcome(o.randomize)
            if out[0] != "ok" and k < len(history) - 1:
                return ("early",) + tuple(out), None
        return out[0], int(o.a)
    st = {}
    dist = {}
    for x in explore(run, bound=None, cap=20000, state=st):
        cnt["executions"] += 1
        cnt["transitions"] += len(x.trace) + 1
        kind, v = x.obs
        if kind != "ok":
            viol.append({"subcheck": "dist_made_it_fatal", "case": {"changing": True, "entries": entries, "history": history},
                         "observed": kind, "expected": "returns", "what": "weights %r from non-random fields: call ended with %r" % (history, kind)})
            break
        dist[v] = dist.get(v, Fraction(0)) + x.prob
    if st.get("capped") or viol:
        cnt["capped"] = 1 if st.get("capped") else 0
        return {"cnt": cnt, "viol": viol}
    exp = dist_reference(entries, list(history[-1]))
    cnt["exact_checked"] = 1
    cnt["states"] = len(dist)
    if dist != exp:
        viol.append({"subcheck": "wrong_probability", "case": {"changing": True, "entries": entries, "history": history},
                     "observed": {str(k): str(v) for k, v in dist.items()}, "expected": {str(k): str(v) for k, v in exp.items()},
                     "what": "dist %r with weights from non-random fields, weight history %r: exact distribution of the last call %s, "
                             "its own weights give %s" % (entries, history, {k: str(v) for k, v in sorted(dist.items())},
                                                           {k: str(v) for k, v in sorted(exp.items())})})
    return {"cnt": cnt, "viol": viol}


def changing_jobs(tier):
    jobs = []
    ent = [([1, 6], 2), ([2, [4, 5], 7], 3)]
    for entries, n in ent:
        vecs = [(1, 3, 2), (3, 1, 1), (0, 2, 5), (2, 0, 1)]
        vecs = [v[:n] for v in vecs]
        for a in vecs:
            if sum(a) == 0:
                continue
            jobs.append((entries, [a]))
            for b in vecs:
                if b != a and sum(b):
                    jobs.append((entries, [b, a]))
                    if tier != 'quick':
                        jobs.append((entries, [b, b, a]))
    return jobs


def foreach_jobs(tier):
    jobs = []
    for entries, weights in [([1, [4, 6]], [1, 2]), ([[0, 1], [5, 7]], [2, 1]), ([2, [3, 4], 7], [1, 1, 0]), ([[2, 5]], [3]),
                             ([0, [6, 7]], [0, 2])]:
        for size in ((1, 2) if tier == 'quick' else (1, 2, 3)):
            jobs.append((entries, weights, size))
    return jobs


def overlap(entries):
    seen = set()
    for e in entries:
        vs = set(entry_values(e))
        if vs & seen:
            return True
        seen |= vs
    return False


def cases_for(tier):
    cases = []
    for ta in ([U3, S3] if tier == 'quick' else [U3, S3, U2]):
        lo, hi = gen.tmin(ta), gen.tmax(ta)
        if ta[0] == 'int':
            ent_menu = [-3, 0, 2, [-2, -1], [1, 3], [-4, -3]]
        else:
            ent_menu = [1, 2, 5, [4, 6], [0, 1], [6, 7]] if ta[1] == 3 else [0, 1, 3, [1, 2], [2, 3]]
        wm = [0, 1, 2, 3]
        fields = [fld('a', ta), fld('b', U2), fld('x', U2, rnd=False)]
        for k in (1, 2, 3):
            for ents in itertools.combinations(ent_menu, k):
                ents = list(ents)
                wlists = list(itertools.product(wm, repeat=k))
                if tier == 'quick' and k == 3:
                    wlists = [w for w in wlists if sum(w) in (2, 3, 4) or w == (3, 3, 3)]
                for ws in wlists:
                    if sum(ws) == 0:
                        continue
                    ov = overlap(ents)
                    zero_in_overlap = ov and 0 in ws
                    dst = ('dist', 'a', [[e, w] for e, w in zip(ents, ws)])
                    # nothing else constrains a
                    cases.append({'prog': {'fields': fields, 'block': [dst], 'call': 'randomize'}, 'X': [{'x': 1}],
                                  'entries': ents, 'wexpr': list(ws), 'exact': not zero_in_overlap})
        # weights from a non-random field
        for ents in itertools.combinations(ent_menu, 2):
            ents = list(ents)
            dst = ('dist', 'a', [[ents[0], X_], [ents[1], 2]])
            cases.append({'prog': {'fields': fields, 'block': [dst], 'call': 'randomize'},
                          'X': [{'x': v} for v in range(4)], 'entries': ents, 'wexpr': [('f', 'x'), 2],
                          'exact': not overlap(ents)})
            dst = ('dist', 'a', [[ents[0], 1], [ents[1], X_]])
            cases.append({'prog': {'fields': fields, 'block': [dst], 'call': 'randomize_with' if False else 'randomize'},
                          'X': [{'x': v} for v in range(4)], 'entries': ents, 'wexpr': [1, ('f', 'x')],
                          'exact': not overlap(ents)})
        # accompanying constraints (zero-mass oracle only)
        v0 = ent_menu[0]
        acc = [('expr', ('bin', '!=', A_, ('lit', v0))), ('expr', ('bin', '<', A_, ('lit', ent_menu[2]))),
               ('expr', ('in', A_, [ent_menu[1], ent_menu[3]])), ('expr', ('bin', '<', A_, B_)) if ta[0] == 'bit' else
               ('expr', ('bin', '!=', B_, ('lit', 1))), ('expr', ('bin', '==', ('bin', '+', A_, B_), ('lit', 3))),
               ('implies', ('bin', '==', B_, ('lit', 0)), [('expr', ('bin', '==', A_, ('lit', ent_menu[1])))])]
        for ents in itertools.combinations(ent_menu, 2 if tier == 'quick' else 3):
            ents = list(ents)
            for ws in ([(1, 0), (2, 1), (0, 3)] if tier == 'quick' else [(1, 0, 2), (2, 1, 0), (0, 3, 1), (1, 1, 1)]):
                dst = ('dist', 'a', [[e, w] for e, w in zip(ents, ws)])
                for ac in acc:
                    cases.append({'prog': {'fields': fields, 'block': [dst, ac], 'call': 'randomize'}, 'X': [{'x': 1}],
                                  'entries': ents, 'wexpr': list(ws), 'exact': False, 'cap': 6000})
                    cases.append({'prog': {'fields': fields, 'block': [ac], 'inline': [dst], 'call': 'randomize_with'},
                                  'X': [{'x': 1}], 'entries': ents, 'wexpr': list(ws), 'exact': False, 'cap': 6000})
    return cases


# ---------------------------------------------------------------- distselect / randselect

class _ScriptedRandomModule(object):
    def __init__(self, script):
        self._r = SRng(script)

    def randint(self, a, b):
        return self._r.randint(a, b)


def select_job(job):
    kind, ws = job
    import vsc.methods as M
    viol = []
    cnt = {"executions": 0, "transitions": 0, "states": 0, "nontrivial": 0}
    real = M.random
    dist = {}

    def run(s):
        M.random = _ScriptedRandomModule(s)
        try:
            if kind == 'distselect':
                return common.outcome(lambda: vsc.distselect(list(ws)))
            hit = []
            r = common.outcome(lambda: vsc.randselect([(w, (lambda i=i: hit.append(i))) for i, w in enumerate(ws)]))
            if r[0] == 'ok':
                if len(hit) != 1:
                    return ('ok', ('calls', tuple(hit)))
                return ('ok', hit[0])
            return r
        finally:
            M.random = real
    st = {}
    tot = Fraction(0)
    for x in explore(run, bound=None, cap=5000, state=st):
        cnt["executions"] += 1
        cnt["transitions"] += len(x.trace) + 1
        key = x.obs[1] if x.obs[0] == 'ok' else x.obs[0]
        dist[key] = dist.get(key, Fraction(0)) + x.prob
        tot += x.prob
    exp = {i: Fraction(w, sum(ws)) for i, w in enumerate(ws) if w > 0}
    cnt["states"] = len(dist)
    if len(exp) > 1:
        cnt["nontrivial"] = 1
    if dist != exp:
        viol.append({"subcheck": "select_probability", "case": {"kind": kind, "weights": list(ws)},
                     "observed": {str(k): str(v) for k, v in dist.items()}, "expected": {str(k): str(v) for k, v in exp.items()},
                     "what": "%s(%r): exact distribution %s, expected weight/total %s" % (
                         kind, list(ws), {str(k): str(v) for k, v in dist.items()}, {str(k): str(v) for k, v in exp.items()})})
    return {"cnt": cnt, "viol": viol}


def select_jobs(tier):
    jobs = []
    for n in (1, 2, 3, 4):
        for ws in itertools.product(range(4 if tier == 'quick' else 5), repeat=n):
            if sum(ws) > 0:
                jobs.append(('distselect', ws))
                if n <= 3 or tier != 'quick':
                    jobs.append(('randselect', ws))
    return jobs


def classify(v):
    return None


def run(res, only=None):
    tier = res.tier
    nontriv = 0
    if only in (None, 'dist'):
        cases = common.rotate(cases_for(tier), res.seed)
        out = common.pmap(run_case, cases)
        for c, r in common.good(cases, out, res):
            cnt = r["cnt"]
            res.add("traces_validated_against_impl", cnt["executions"])
            res.add("transitions", cnt["transitions"])
            res.add("states", cnt["states"])
            res.add("evaluations", cnt["executions"])
            nontriv += 1 if cnt["nontrivial"] else 0
            res.subcount("dist", "programs")
            res.subcount("dist", "exact_distributions_checked", cnt["exact_checked"])
            res.subcount("dist", "capped", cnt["capped"])
            for v in r["viol"]:
                v["finding"] = classify(v)
                res.violation(v)
        res.sample({"program": cases[0]["prog"], "entries": cases[0]["entries"]})
    if only in (None, 'foreach'):
        jobs = foreach_jobs(tier)
        out = common.pmap(foreach_dist_case, jobs, chunk=1)
        for j, r in common.good(jobs, out, res):
            cnt = r["cnt"]
            res.add("traces_validated_against_impl", cnt["executions"])
            res.add("transitions", cnt["transitions"])
            res.add("states", cnt["states"])
            res.add("evaluations", cnt["executions"])
            nontriv += 1
            res.subcount("dist", "foreach_programs")
            res.subcount("dist", "capped", cnt["capped"])
            for v in r["viol"]:
                v["finding"] = classify(v)
                res.violation(v)
    if only in (None, 'changing'):
        jobs = changing_jobs(tier)
        out = common.pmap(changing_weights_case, jobs, chunk=1)
        for j, r in common.good(jobs, out, res):
            cnt = r["cnt"]
            res.add("traces_validated_against_impl", cnt["executions"])
            res.add("transitions", cnt["transitions"])
            res.add("states", cnt["states"])
            res.add("evaluations", cnt["executions"])
            nontriv += 1
            res.subcount("dist", "changing_weight_histories")
            res.subcount("dist", "capped", cnt["capped"])
            for v in r["viol"]:
                v["finding"] = classify(v)
                res.violation(v)
    if only in (None, 'select'):
        jobs = common.rotate(select_jobs(tier), res.seed)
        out = common.pmap(select_job, jobs)
        for j, r in common.good(jobs, out, res):
            cnt = r["cnt"]
            res.add("traces_validated_against_impl", cnt["executions"])
            res.add("transitions", cnt["transitions"])
            res.add("states", cnt["states"])
            res.add("evaluations", cnt["executions"])
            nontriv += cnt["nontrivial"]
            res.subcount("select", "weight_vectors")
            for v in r["viol"]:
                v["finding"] = classify(v)
                res.violation(v)
        res.sample({"select": list(jobs[0])})
    res.cov["distinct_nontrivial"] = nontriv
    res.cov["rule"] = ("one case = one weight list (with its accompanying constraint); non-trivial if at least two entries "
                       "carry a non-zero weight; every case is explored over its complete answer tree (probabilities sum to 1, asserted)")
    res.cov["exhaustive"] = True
    res.assumptions.append("each randint() is uniform (CPython random); probabilities are exact Fractions over the complete tree")


def replay(rec):
    c = rec["case"]
    if rec["subcheck"] == "select_probability":
        r = select_job((c["kind"], tuple(c["weights"])))
        return (not r["viol"]), (r["viol"][0]["what"] if r["viol"] else "distribution matches")
    if c.get("changing"):
        r = changing_weights_case((c["entries"], [tuple(h) for h in c["history"]]))
        bad = [v for v in r["viol"] if v["subcheck"] == rec["subcheck"]]
        return (not bad), (bad[0]["what"] if bad else "distribution matches the weights")
    if c.get("foreach"):
        r = foreach_dist_case((c["entries"], c["weights"], c["size"]))
        bad = [v for v in r["viol"] if v["subcheck"] == rec["subcheck"]]
        return (not bad), (bad[0]["what"] if bad else "distribution matches the weights")
    pr = _detuple(c["prog"])
    wexpr = [tuple(w) if isinstance(w, list) else w for w in c["wexpr"]]
    r = run_case({'prog': pr, 'X': [c["X"]], 'entries': c["entries"], 'wexpr': wexpr, 'exact': c["exact"]})
    bad = [v for v in r["viol"] if v["subcheck"] == rec["subcheck"]]
    return (not bad), (bad[0]["what"] if bad else "distribution matches the weights")

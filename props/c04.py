"""C04 - list constraints hold on exactly the list the user sees.

Every program of a list grammar (element kinds bit/int/enum/object; fixed
sizes 0..3 and random sizes under several size constraints; foreach over
element / index / both incl. index arithmetic and neighbour relations; sum,
product, unique, unique_vec, membership) x every environment-answer sequence
with at most one non-default answer, two consecutive calls, followed by every
edit history of length <= 2 (append / extend / assign whole / clear / l[i]=v)
compared step by step with a Python list twin.

Oracle (written over what the list EXPOSES): statements evaluated over
list(o.l); len(o.l) == o.l.size == len(list(o.l)); o.l[i] == iteration;
fixed-size lists keep their length; a random size satisfies its constraints.
"""
import enum
import itertools

from mc import common
from mc.common import vsc, Script, SRandState, explore

PID = "C04"


class EL(enum.IntEnum):
    A = 0
    B = 2
    C = 5


def prod(xs):
    r = 0 if not xs else 1
    for x in xs:
        r *= x
    return r


# ------------------------------------------------------------------ programs
# each program: dict(name, mk -> class, pred(view) -> bool, fixed (int|None), elem kind)
# view = dict(l=[...], l2=[...] (optional), n=int, sz=len)

def programs(tier):
    P = []

    def add(name, mk, pred, fixed=None, kind="bit", size_ok=None, call=None):
        P.append({"name": name, "mk": mk, "pred": pred, "fixed": fixed, "kind": kind, "size_ok": size_ok, "call": call})

    # ---- fixed-size scalar lists ------------------------------------------------
    for sz in (0, 1, 2, 3):
        for signed in (False, True):
            T = (lambda: vsc.int_t(3)) if signed else (lambda: vsc.bit_t(2))
            kind = "int" if signed else "bit"
            top = 3 if not signed else 3
            bodies = [
                ("it<c", lambda s: _fe_it(s, lambda it: it < 2), lambda v: all(x < 2 for x in v["l"])),
                ("it!=n", lambda s: _fe_it(s, lambda it: it != s.n), lambda v: all(x != v["n"] for x in v["l"])),
                ("l[i]==i", lambda s: _fe_idx(s, lambda s2, i: s2.l[i] == i), lambda v: all(x == i for i, x in enumerate(v["l"]))),
                ("l[i]>=i+1", lambda s: _fe_idx(s, lambda s2, i: s2.l[i] >= i + 1), lambda v: all(x >= i + 1 for i, x in enumerate(v["l"]))),
                ("both", lambda s: _fe_both(s, lambda i, it: it != i), lambda v: all(x != i for i, x in enumerate(v["l"]))),
                ("sorted", lambda s: _fe_sorted(s), lambda v: all(v["l"][i] < v["l"][i + 1] for i in range(len(v["l"]) - 1))),
                ("sum==c", lambda s: s.l.sum == 4, lambda v: sum(v["l"]) == 4),
                ("sum<n", lambda s: s.l.sum < s.n, lambda v: sum(v["l"]) < v["n"]),
                ("sum>5", lambda s: s.l.sum > 5, lambda v: sum(v["l"]) > 5),
                ("product==c", lambda s: s.l.product == 6, lambda v: prod(v["l"]) == 6),
                ("product>n", lambda s: s.l.product > s.n, lambda v: prod(v["l"]) > v["n"]),
                ("unique", lambda s: vsc.unique(s.l), lambda v: len(set(v["l"])) == len(v["l"])),
                ("n in l", lambda s: s.n.inside(s.l), lambda v: v["n"] in v["l"]),
                ("n notin l", lambda s: s.n.not_inside(s.l), lambda v: v["n"] not in v["l"]),
            ]
            import operator as OP
            rels = [(">=", OP.ge), (">", OP.gt), ("<=", OP.le), ("<", OP.lt), ("==", OP.eq), ("!=", OP.ne)]
            if not signed:
                # if/else inside foreach whose condition is known at expansion time (index / non-random field m == 2):
                # every relational operator, with the boundary on, below and above the compared value
                for rn, rf in rels:
                    for k in (0, 1, 2):
                        bodies.append(("if(i%s%d)" % (rn, k),
                                       lambda s, rf=rf, k=k: _fe_ifelse(s, lambda s2, i: rf(i, k)),
                                       lambda v, rf=rf, k=k: all(x == (1 if rf(i, k) else 2) for i, x in enumerate(v["l"]))))
                    for k in (1, 2, 3):
                        bodies.append(("if(m%s%d)" % (rn, k),
                                       lambda s, rf=rf, k=k: _fe_ifelse(s, lambda s2, i: rf(s2.m, k)),
                                       lambda v, rf=rf, k=k: all(x == (1 if rf(2, k) else 2) for x in v["l"])))
                for k in (0, 1, 2):
                    bodies.append(("if(e[i]==%d)" % k,
                                   lambda s, k=k: _fe_ifelse(s, lambda s2, i: s2.e[i] == k),
                                   lambda v, k=k: all(x == (1 if E_VALS[i] == k else 2) for i, x in enumerate(v["l"]))))
                # complemented non-random operands in a condition known at expansion time (m is 3 bits wide and 2, the
                # literal has m's width: ~m is 5 under both readings of the width rules)
                for k in (5, 2):
                    bodies.append(("if(~m==%d)" % k,
                                   lambda s, k=k: _fe_ifelse(s, lambda s2, i: (~s2.m) == vsc.unsigned(k, 3)),
                                   lambda v, k=k: all(x == (1 if k == 5 else 2) for x in v["l"])))
                for k in (1, 2):
                    bodies.append(("if(~e[i]==%d)" % k,
                                   lambda s, k=k: _fe_ifelse(s, lambda s2, i: (~s2.e[i]) == vsc.unsigned(k, 2)),
                                   lambda v, k=k: all(x == (1 if (~E_VALS[i] & 3) == k else 2) for i, x in enumerate(v["l"]))))
                # arithmetic over non-random operands that wraps at the operands' width (m + 7 is 1 in 3 bits): the
                # condition is true under both readings (all operands unsigned, 3 bits)
                bodies.append(("if(m+u7==1)",
                               lambda s: _fe_ifelse(s, lambda s2, i: (s2.m + vsc.unsigned(7, 3)) == vsc.unsigned(1, 3)),
                               lambda v: all(x == 1 for x in v["l"])))
                bodies.append(("if(e[i]>m-1)", lambda s: _fe_ifelse(s, lambda s2, i: s2.e[i] > s2.m - 1),
                               lambda v: all(x == (1 if E_VALS[i] > 1 else 2) for i, x in enumerate(v["l"]))))
            if signed:
                bodies += [("it<0", lambda s: _fe_it(s, lambda it: it < 0), lambda v: all(x < 0 for x in v["l"])),
                           ("sum==-3", lambda s: s.l.sum == -3, lambda v: sum(v["l"]) == -3)]
            for bname, bld, pred in bodies:
                if sz == 0 and bname in ("product==c", "product>n"):
                    continue       # the product of no elements is not defined by the statement
                if signed and bname in ("n in l", "n notin l", "product>n", "sum<n", "it!=n"):
                    continue       # n is unsigned: a mixed-sign comparison, judged by C01 only where both readings agree
                add("fixed%d/%s/%s" % (sz, kind, bname), _mk_fixed(T, sz, bld), pred, fixed=sz, kind=kind)
            if tier != "quick" or sz == 2:
                for (n1, b1, p1), (n2, b2, p2) in itertools.combinations(bodies[:9], 2):
                    if n1.startswith("if(") or n2.startswith("if("):
                        continue
                    add("fixed%d/%s/%s+%s" % (sz, kind, n1, n2), _mk_fixed(T, sz, lambda s, b1=b1, b2=b2: (b1(s), b2(s))),
                        lambda v, p1=p1, p2=p2: p1(v) and p2(v), fixed=sz, kind=kind)
    # ---- the list statement lives in a dynamic constraint that every call references inline ----------
    for sz in (1, 2, 3):
        for bname, bld, pred in [
                ("it<c", lambda s: _fe_it(s, lambda it: it < 2), lambda v: all(x < 2 for x in v["l"])),
                ("l[i]==i", lambda s: _fe_idx(s, lambda s2, i: s2.l[i] == i), lambda v: all(x == i for i, x in enumerate(v["l"]))),
                ("sum==c", lambda s: s.l.sum == 4, lambda v: sum(v["l"]) == 4),
                ("unique", lambda s: vsc.unique(s.l), lambda v: len(set(v["l"])) == len(v["l"]))]:
            if sz == 1 and bname == "sum==c":
                continue
            add("dyn%d/bit/%s" % (sz, bname), _mk_dyn(lambda: vsc.bit_t(2), sz, bld), pred, fixed=sz, kind="bit", call="dyn")
    # ---- unique_vec over two fixed lists -----------------------------------------
    for sz in (1, 2):
        add("uvec%d" % sz, _mk_two(sz), lambda v: v["l"] != v["l2"], fixed=sz, kind="bit1")
    # ---- unique_vec over three and four lists: every pair of vectors differs ----------
    for k in (3, 4):
        add("uvec2x%d" % k, _mk_vecs(2, k), lambda v, k=k: len(set(tuple(v[nm]) for nm in ("l", "l2", "l3", "l4")[:k])) == k, fixed=2, kind="bit1")
    # ---- enum list -----------------------------------------------------------------
    for sz in (1, 2, 3):
        add("enum%d/unique" % sz, _mk_enum(sz, lambda s: vsc.unique(s.l)), lambda v: len(set(v["l"])) == len(v["l"]), fixed=sz, kind="enum")
        add("enum%d/it!=B" % sz, _mk_enum(sz, lambda s: _fe_it(s, lambda it: it != EL.B)), lambda v: all(x != 2 for x in v["l"]), fixed=sz, kind="enum")
    # ---- object list -----------------------------------------------------------------
    for sz in (1, 2, 3):
        add("obj%d/it.x>0" % sz, _mk_obj(sz, lambda s: _fe_it(s, lambda it: it.x > 0)), lambda v: all(x > 0 and x < 3 for x in v["l"]), fixed=sz, kind="obj")
        add("obj%d/l[i].x==i" % sz, _mk_obj(sz, lambda s: _fe_idx(s, lambda s2, i: s2.l[i].x == i)), lambda v: all(x == i for i, x in enumerate(v["l"])) and all(x < 3 for x in v["l"]), fixed=sz, kind="obj")
    # ---- random-size scalar lists -------------------------------------------------
    sizes = [
        ("size in [1..3]", lambda s: s.l.size.inside(vsc.rangelist((1, 3))), lambda n, v: 1 <= n <= 3),
        ("size in [0..2]", lambda s: s.l.size.inside(vsc.rangelist((0, 2))), lambda n, v: 0 <= n <= 2),
        ("size == 2", lambda s: s.l.size == 2, lambda n, v: n == 2),
        ("size < 3", lambda s: s.l.size < 3, lambda n, v: n < 3),
        ("size == n", lambda s: (s.l.size == s.n, s.n < 4), lambda n, v: n == v["n"] and v["n"] < 4),
        ("size<=3;l[0]==size", lambda s: (s.l.size.inside(vsc.rangelist((1, 3))), s.l[0] == s.l.size), lambda n, v: 1 <= n <= 3 and v["l"][0] == n),
    ]
    rbodies = [
        ("none", lambda s: None, lambda v: True),
        ("it<c", lambda s: _fe_it(s, lambda it: it < 2), lambda v: all(x < 2 for x in v["l"])),
        ("l[i]==i", lambda s: _fe_idx(s, lambda s2, i: s2.l[i] == i), lambda v: all(x == i for i, x in enumerate(v["l"]))),
        ("sum==3", lambda s: s.l.sum == 3, lambda v: sum(v["l"]) == 3),
        ("sum<=n", lambda s: s.l.sum <= s.n, lambda v: sum(v["l"]) <= v["n"]),
        ("unique", lambda s: vsc.unique(s.l), lambda v: len(set(v["l"])) == len(v["l"])),
        ("product==2", lambda s: s.l.product == 2, lambda v: prod(v["l"]) == 2),
        ("n in l", lambda s: s.n.inside(s.l), lambda v: v["n"] in v["l"]),
    ]
    for (sn, sb, sp) in sizes:
        for (bn, bb, bp) in rbodies:
            if bn == "n in l" and "0" in sn:
                continue
            add("rsz/%s/%s" % (sn, bn), _mk_randsz(lambda s, sb=sb, bb=bb: (sb(s), bb(s))), bp, fixed=None, size_ok=sp)
            if bn in ("it<c", "l[i]==i", "unique") and "l[0]" not in sn:
                # size in the class block, the list statement in a dynamic constraint referenced inline: the list grows
                # in the very call whose inline constraints range over it
                add("rszdyn/%s/%s" % (sn, bn), _mk_randsz(lambda s, sb=sb: sb(s), dyn=lambda s, bb=bb: bb(s)), bp, fixed=None,
                    size_ok=sp, call="dyn")
            if bn in ("sum==3", "sum<=n", "product==2", "unique", "it<c"):
                # the list statement stated BEFORE the size constraint
                add("rszrev/%s/%s" % (sn, bn), _mk_randsz(lambda s, sb=sb, bb=bb: (bb(s), sb(s))), bp, fixed=None, size_ok=sp)
                # the user filled the list (beyond the largest admitted size) before the first call
                add("rszpre/%s/%s" % (sn, bn), _mk_randsz(lambda s, sb=sb, bb=bb: (sb(s), bb(s)), prefill=[1, 2, 3, 0, 1]), bp,
                    fixed=None, size_ok=sp)
    return P


def _fe_it(s, f):
    with vsc.foreach(s.l) as it:
        f(it)


def _fe_idx(s, f):
    with vsc.foreach(s.l, idx=True) as i:
        f(s, i)


def _fe_both(s, f):
    with vsc.foreach(s.l, idx=True, it=True) as (i, it):
        f(i, it)


def _fe_ifelse(s, cond):
    with vsc.foreach(s.l, idx=True) as i:
        with vsc.if_then(cond(s, i)):
            s.l[i] == 1
        with vsc.else_then:
            s.l[i] == 2


def _fe_sorted(s):
    with vsc.foreach(s.l, idx=True) as i:
        with vsc.if_then(i < s.l.size - 1):
            s.l[i] < s.l[i + 1]


def _mk_fixed(T, sz, bld):
    def mk():
        @vsc.randobj
        class C(object):
            def __init__(self):
                self.l = vsc.rand_list_t(T(), sz)
                self.n = vsc.rand_bit_t(3)
                self.m = vsc.bit_t(3, i=2)
                # a non-random list (values E_VALS): conditions may read its elements by the foreach index
                self.e = vsc.list_t(vsc.bit_t(2), len(E_VALS))
                for k, v in enumerate(E_VALS):
                    self.e[k] = v

            @vsc.constraint
            def cl(self):
                bld(self)
        return C
    return mk


E_VALS = (1, 0, 2, 1, 0, 2, 2, 1, 0, 1)


def _mk_dyn(T, sz, bld):
    def mk():
        @vsc.randobj
        class C(object):
            def __init__(self):
                self.l = vsc.rand_list_t(T(), sz)
                self.n = vsc.rand_bit_t(3)
                self.m = vsc.bit_t(3, i=2)

            @vsc.dynamic_constraint
            def dc(self):
                bld(self)
        return C
    return mk


def do_call(o, prog):
    if prog.get("call") == "dyn":
        with o.randomize_with() as it:
            it.dc()
    else:
        o.randomize()


def _mk_two(sz):
    def mk():
        @vsc.randobj
        class C(object):
            def __init__(self):
                self.l = vsc.rand_list_t(vsc.bit_t(1), sz)
                self.l2 = vsc.rand_list_t(vsc.bit_t(1), sz)
                self.n = vsc.rand_bit_t(3)

            @vsc.constraint
            def cl(self):
                vsc.unique_vec(self.l, self.l2)
        return C
    return mk


def _mk_vecs(sz, k):
    def mk():
        @vsc.randobj
        class C(object):
            def __init__(self):
                self.l = vsc.rand_list_t(vsc.bit_t(1), sz)
                self.l2 = vsc.rand_list_t(vsc.bit_t(1), sz)
                self.l3 = vsc.rand_list_t(vsc.bit_t(1), sz)
                if k > 3:
                    self.l4 = vsc.rand_list_t(vsc.bit_t(1), sz)
                self.n = vsc.rand_bit_t(3)

            @vsc.constraint
            def cl(self):
                if k > 3:
                    vsc.unique_vec(self.l, self.l2, self.l3, self.l4)
                else:
                    vsc.unique_vec(self.l, self.l2, self.l3)
        return C
    return mk


def _mk_enum(sz, bld):
    def mk():
        @vsc.randobj
        class C(object):
            def __init__(self):
                self.l = vsc.rand_list_t(vsc.enum_t(EL), sz)
                self.n = vsc.rand_bit_t(3)

            @vsc.constraint
            def cl(self):
                bld(self)
        return C
    return mk


def _mk_obj(sz, bld):
    def mk():
        @vsc.randobj
        class E(object):
            def __init__(self):
                self.x = vsc.rand_bit_t(2)

            @vsc.constraint
            def cx(self):
                self.x < 3

        @vsc.randobj
        class C(object):
            def __init__(self):
                self.l = vsc.rand_list_t(E())
                for _ in range(sz):
                    self.l.append(E())
                self.n = vsc.rand_bit_t(3)

            @vsc.constraint
            def cl(self):
                bld(self)
        return C
    return mk


def _mk_randsz(bld, prefill=None, dyn=None):
    def mk():
        @vsc.randobj
        class C(object):
            def __init__(self):
                self.l = vsc.randsz_list_t(vsc.bit_t(2))
                self.n = vsc.rand_bit_t(3)
                if prefill:
                    self.l.extend(prefill)

            @vsc.constraint
            def cl(self):
                bld(self)

            # statements over the list that only a call's inline reference brings in
            @vsc.dynamic_constraint
            def dc(self):
                if dyn is not None:
                    dyn(self)
        return C
    return mk


# ------------------------------------------------------------------ observation

def view(o, kind):
    l = o.l
    it = [x for x in l]
    if kind == "obj":
        itv = [int(e.x) for e in it]
        idx = [int(l[i].x) for i in range(len(it))]
    elif kind == "enum":
        itv = [int(x) for x in it]
        idx = [int(l[i]) for i in range(len(it))]
    else:
        itv = [int(x) for x in it]
        idx = [int(l[i]) for i in range(len(it))]
    v = {"l": itv, "idx": idx, "len": len(l), "size": int(l.size), "n": int(o.n)}
    for nm in ("l2", "l3", "l4"):
        if hasattr(o, nm):
            v[nm] = [int(x) for x in getattr(o, nm)]
    return v


EDITS = [("append", 1), ("append", 6), ("extend", [2, 3]), ("assign", [3, 0, 1]), ("clear",), ("setitem", 0, 2), ("assign", [])]


def _m(x, kind):
    return x & 1 if kind == "bit1" else x & 3 if kind == "bit" else _wrap3(x)


def apply_edit(o, twin, e, kind):
    if e[0] == "append":
        o.l.append(e[1])
        twin.append(_m(e[1], kind))
    elif e[0] == "extend":
        o.l.extend(e[1])
        twin.extend([_m(x, kind) for x in e[1]])
    elif e[0] == "assign":
        o.l = list(e[1])
        del twin[:]
        twin.extend([_m(x, kind) for x in e[1]])
    elif e[0] == "clear":
        o.l.clear()
        del twin[:]
    elif e[0] == "setitem":
        if len(twin) > e[1]:
            o.l[e[1]] = e[2]
            twin[e[1]] = _m(e[2], kind)


def _wrap3(v):
    v &= 7
    return v - 8 if v & 4 else v


def run_case(case):
    prog = PROGS[case["pi"]]
    bound = case.get("bound", 1)
    cnt = {"executions": 0, "transitions": 0, "states": 0, "nontrivial": 0, "failed_calls": 0, "edit_histories": 0}
    viol = []
    C = prog["mk"]()
    kind = prog["kind"]

    def bad(sub, what, obs, exp, choices, extra=None):
        if len(viol) < 4:
            viol.append({"subcheck": sub, "case": {"pi": case["pi"], "name": prog["name"], "choices": choices, "extra": extra},
                         "observed": obs, "expected": exp, "what": "program %s: %s" % (prog["name"], what)})

    def run(s):
        o = C()
        o.set_randstate(SRandState(s))
        outs = []
        for _ in range(2):
            out = common.outcome(lambda: do_call(o, prog))
            try:
                v = view(o, kind)
            except Exception as e:
                v = {"view_error": "%s %s" % (type(e).__name__, str(e)[:80])}
            outs.append((out, v))
        return outs, o
    st = {}
    seen = set()
    keep = None
    for x in explore(lambda s: run(s), bound=bound, cap=3000, state=st):
        outs, o = x.obs
        cnt["executions"] += 2
        cnt["transitions"] += len(x.trace) + 2
        for ci, (out, v) in enumerate(outs):
            if out[0] == "solvefail":
                cnt["failed_calls"] += 1
                continue
            if out[0] != "ok":
                bad("exception", "call %d raised %r" % (ci, out), list(out), "returns or SolveFailure", x.choices)
                continue
            if "view_error" in v:
                bad("list_unreadable", "reading the list after call %d raised %s" % (ci, v["view_error"]), v, "readable", x.choices)
                continue
            seen.add(repr(v))
            if not (v["len"] == v["size"] == len(v["l"])):
                bad("length_disagreement", "len()=%r size=%r iteration yields %d elements" % (v["len"], v["size"], len(v["l"])),
                    [v["len"], v["size"], len(v["l"])], "all equal", x.choices)
            if v["idx"] != v["l"]:
                bad("index_vs_iteration", "indexing gives %r, iteration gives %r" % (v["idx"], v["l"]), v["idx"], v["l"], x.choices)
            if prog["fixed"] is not None and v["len"] != prog["fixed"]:
                bad("fixed_size_changed", "fixed-size list of %d now has length %d" % (prog["fixed"], v["len"]), v["len"], prog["fixed"], x.choices)
            if prog["size_ok"] is not None:
                try:
                    okk = prog["size_ok"](v["len"], v)
                except IndexError:
                    okk = False
                if not okk:
                    bad("size_constraint_violated", "final list %r (n=%r) has a length violating its size constraint" % (v["l"], v["n"]),
                        v, "size constraint holds", x.choices)
            try:
                ok = prog["pred"](v)
            except IndexError:
                ok = False
            if not ok:
                bad("list_constraint_violated", "call %d returned l=%r%s n=%r which violates the constraint evaluated over the "
                    "exposed elements" % (ci, v["l"], (" l2=%r" % v["l2"]) if "l2" in v else "", v["n"]), v, "constraint holds", x.choices)
            elif kind in ("bit", "int", "bit1") and keep is None:
                keep = x.choices
    if st.get("capped"):
        cnt["capped"] = 1
    cnt["states"] = len(seen)
    if len(seen) > 1:
        cnt["nontrivial"] = 1
    # ---- edit histories after a successful call (default answers and one deviating schedule)
    if kind in ("bit", "int", "bit1") and keep is not None and not viol:
        for e1 in EDITS:
            for e2 in [None] + EDITS:
                outs, o = run(Script(keep))
                if outs[-1][0][0] != "ok":
                    break
                twin = list(outs[-1][1]["l"])
                hist = [e1] + ([e2] if e2 else [])
                cnt["edit_histories"] += 1
                okh = True
                for e in hist:
                    try:
                        apply_edit(o, twin, e, kind)
                        v = view(o, kind)
                    except Exception as ex:
                        bad("edit_exception", "edit %r after the call raised %s %s" % (e, type(ex).__name__, str(ex)[:80]),
                            [type(ex).__name__], "edit works", keep, hist)
                        okh = False
                        break
                    cnt["transitions"] += 1
                    if v["l"] != twin or v["len"] != len(twin) or v["size"] != len(twin) or v["idx"] != twin:
                        bad("edit_not_on_exposed_list", "after the call the list read %r; after edits %r it reads %r (len %r, size %r), "
                            "a Python list gives %r" % (outs[-1][1]["l"], hist[:hist.index(e) + 1], v["l"], v["len"], v["size"], twin),
                            v, twin, keep, hist)
                        okh = False
                        break
                if prog["name"].startswith("uvec"):
                    continue       # editing one of the two vectors makes their sizes differ: a user error
                if True:
                    # a further call after the edits must again expose a consistent list
                    out = common.outcome(lambda: do_call(o, prog))
                    cnt["executions"] += 1
                    if out[0] == "ok":
                        try:
                            v = view(o, kind)
                            if not (v["len"] == v["size"] == len(v["l"])) or v["idx"] != v["l"]:
                                bad("length_disagreement", "after edits %r and another call: len=%r size=%r iter=%r idx=%r" % (
                                    hist, v["len"], v["size"], v["l"], v["idx"]), v, "consistent", keep, hist)
                            elif prog["fixed"] is not None and kind in ("bit", "int") and v["len"] == len(twin) and not prog["pred"](v):
                                # the statements range over the list as the user left it (edited), not as an earlier call saw it
                                bad("list_constraint_violated", "after edits %r another call returned l=%r n=%r which violates the "
                                    "constraint evaluated over the exposed elements" % (hist, v["l"], v["n"]), v, "constraint holds", keep, hist)
                        except Exception as ex:
                            bad("list_unreadable", "after edits %r and another call reading raised %s" % (hist, type(ex).__name__),
                                [type(ex).__name__], "readable", keep, hist)
                    elif out[0] != "solvefail":
                        bad("exception", "call after edits %r raised %r" % (hist, out), list(out), "returns or SolveFailure", keep, hist)
    # ---- object lists: clear / append after a call act on the exposed list
    if kind == "obj" and not viol:
        outs, o = run(Script([]))
        if outs[-1][0][0] == "ok":
            E = type(o.l[0]) if len(o.l) else None
            if E is not None:
                cnt["edit_histories"] += 2
                old = [e for e in o.l]
                fresh = E()
                o.l.append(fresh)
                now = [e for e in o.l]
                if len(o.l) != len(old) + 1 or now[-1] is not fresh or o.l[len(old)] is not fresh:
                    bad("edit_not_on_exposed_list", "append(obj) on an object list: len %d -> %d, last element is %sthe appended object" % (
                        len(old), len(o.l), "" if now and now[-1] is fresh else "NOT "), len(o.l), len(old) + 1, [], ["append"])
                o.l.clear()
                f2 = E()
                o.l.append(f2)
                now = [e for e in o.l]
                if len(o.l) != 1 or not now or now[0] is not f2 or o.l[0] is not f2:
                    bad("edit_not_on_exposed_list", "clear() then append(obj) on an object list: len()=%d, iteration yields %d element(s), "
                        "l[0] is %sthe appended object" % (len(o.l), len(now), "" if (now and o.l[0] is f2) else "NOT "),
                        [len(o.l), len(now)], [1, 1], [], ["clear", "append"])
                out = common.outcome(o.randomize)
                cnt["executions"] += 1
                if out[0] == "ok":
                    if int(o.l[0].x) != int(f2.x) or not (int(f2.x) < 3):
                        bad("list_constraint_violated", "after clear()+append(obj)+randomize the element read through the list (x=%d) is not the "
                            "object the solver worked on (x=%d)" % (int(o.l[0].x), int(f2.x)), int(o.l[0].x), int(f2.x), [], ["clear", "append", "randomize"])
        # item assignment: l[k] = obj replaces the element the list exposes, for the solver too
        outs, o = run(Script([]))
        if outs[-1][0][0] == "ok" and len(o.l):
            E = type(o.l[0])
            cnt["edit_histories"] += 1
            k = len(o.l) - 1
            repl = E()
            repl.x = 3              # outside the element class's own block (x < 3) and most list statements
            o.l[k] = repl
            if o.l[k] is not repl or [e for e in o.l][k] is not repl or len(o.l) != k + 1:
                bad("edit_not_on_exposed_list", "l[%d] = obj on an object list: the list does not expose the assigned object" % k,
                    "other object", "assigned object", [], ["setitem"])
            out = common.outcome(o.randomize)
            cnt["executions"] += 1
            if out[0] == "ok":
                v = view(o, kind)
                if int(o.l[k].x) != int(repl.x) or not prog["pred"](v):
                    bad("list_constraint_violated", "after l[%d] = obj and another call the list reads x=%r (assigned object x=%d): the "
                        "statements do not hold over the exposed elements" % (k, v["l"], int(repl.x)), v, "constraint holds", [],
                        ["setitem", "randomize"])
    return {"cnt": cnt, "viol": viol}


PROGS = programs("thorough")
NQUICK = None


def classify(v):
    """known findings: selector = program family, predicted deviation = ONLY that statement is violated
    (length/size/index agreement and the size constraint still hold)"""
    if v.get("subcheck") != "list_constraint_violated":
        return None
    name = v["case"]["name"]
    view_ = v.get("observed")
    if not isinstance(view_, dict) or "l" not in view_:
        return None
    if name.endswith("/if(m+u7==1)") and view_["l"] and all(x == 2 for x in view_["l"]) and view_["idx"] == view_["l"]:
        # the folded condition was computed over unbounded integers (9 == 1 is false): exactly the else body is imposed
        return "C04-foreach-condition-folded-without-width"
    prog = [p for p in PROGS if p["name"] == name]
    if not prog or prog[0]["size_ok"] is None:
        return None
    try:
        size_fine = prog[0]["size_ok"](view_["len"], view_)
    except IndexError:
        size_fine = False
    if not size_fine or view_["len"] != view_["size"] or view_["idx"] != view_["l"]:
        return None
    if name.startswith("rsz/") and name.endswith("/n in l") and view_["n"] not in view_["l"]:
        return "C04-in-randsz-list"
    if name.startswith("rsz/size<=3;l[0]==size/") and name.split("/")[-1] in ("sum==3", "product==2", "sum<=n"):
        return "C04-sum-size-same-randset"
    if name.split("/")[0] in ("rszrev", "rszpre") and name.split("/")[-1] in ("sum==3", "product==2", "sum<=n"):
        # same defect: the sum/product is expanded before the size is solved (statement order / rand-set order)
        if name.split("/")[0] == "rszrev" or name.split("/")[1] == "size<=3;l[0]==size":
            return "C04-sum-size-same-randset"
    return None


def run(res, only=None):
    names_q = set(p["name"] for p in programs("quick"))
    idxs = [i for i, p in enumerate(PROGS) if res.tier != "quick" or p["name"] in names_q]
    cases = common.rotate([{"pi": i, "bound": 1} for i in idxs], res.seed)
    out = common.pmap(run_case, cases)
    nontriv = 0
    for c, r in common.good(cases, out, res):
        cnt = r["cnt"]
        res.add("traces_validated_against_impl", cnt["executions"])
        res.add("transitions", cnt["transitions"])
        res.add("states", cnt["states"])
        res.add("evaluations", cnt["executions"])
        nontriv += cnt["nontrivial"]
        res.subcount("lists", "programs")
        res.subcount("lists", "failed_calls", cnt["failed_calls"])
        res.subcount("lists", "edit_histories", cnt["edit_histories"])
        for v in r["viol"]:
            v["finding"] = classify(v)
            res.violation(v)
    res.cov["distinct_nontrivial"] = nontriv
    res.cov["rule"] = "one case = one list program; non-trivial if at least two distinct exposed lists were observed"
    res.cov["exhaustive"] = True
    res.sample({"program": PROGS[cases[0]["pi"]]["name"]})
    res.sample({"program": PROGS[cases[len(cases) // 2]["pi"]]["name"], "edits": [list(e) for e in EDITS[:3]]})


def replay(rec):
    c = rec["case"]
    pi = c["pi"]
    if PROGS[pi]["name"] != c["name"]:
        pi = [i for i, p in enumerate(PROGS) if p["name"] == c["name"]][0]
    r = run_case({"pi": pi, "bound": 1})
    bad = [v for v in r["viol"] if v["subcheck"] == rec["subcheck"]]
    return (not bad), (bad[0]["what"] if bad else "holds")

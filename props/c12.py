"""C12 - instance and type coverage aggregate consistently and stay within 0..100.

Explicit-state BFS over histories {create an instance of shape s (a constructor
parameter changes the bin set), sample instance i with one of three
representative values} for several covergroup classes (1-2 coverpoints,
optional cross, at_least in {1,2}, weights in {1,3}), up to 3 instances.
At every state the reference counters are compared with the implementation:
  * an instance's hit vectors = its own samples;
  * type hit vectors = bin-wise sum over the instances of the same shape;
    different shapes form separate types;
  * coverage (covergroup get_coverage / get_inst_coverage, coverpoint
    get_inst_coverage) = weighted mean over items of the share of bins with
    hits >= at_least; 0 <= c <= 100; non-decreasing along every edge; 100
    exactly when every bin is covered.
The same population machinery is used by C13 (props/c13.py).
"""
import itertools

from mc import common, cov, bfs
from mc.common import vsc

PID = "C12"

# configurations: (name, cps, crosses, cg options)
CONFIGS = {
    "one_cp": {'cps': [{'type': ('bit', 2), 'bins': [['lo', 'bin', 0, 1], ['a', 'arr', None, [2, 3]]]}], 'crosses': []},
    "two_cp_x": {'cps': [{'type': ('bit', 2), 'bins': [['lo', 'bin', 0, 1], ['hi', 'bin', 2, 3]]},
                         {'type': ('bit', 2), 'bins': [['a', 'arr', 2, [0, 3]]]}], 'crosses': [['x', [0, 1], None]]},
    "atleast2": {'cps': [{'type': ('bit', 2), 'bins': [['lo', 'bin', 0, 1], ['hi', 'bin', 2, 3]], 'at_least': 2},
                         {'type': ('bit', 2), 'bins': [['a', 'arr', None, [0, 1]], ['r', 'bin', [2, 3]]]}], 'crosses': []},
    "weights": {'cps': [{'type': ('bit', 2), 'bins': [['lo', 'bin', 0, 1], ['hi', 'bin', 2, 3]], 'weight': 3},
                        {'type': ('bit', 2), 'bins': [['a', 'arr', None, [0, 3]]], 'weight': 1}], 'crosses': []},
    "cg_atleast": {'cps': [{'type': ('bit', 2), 'bins': [['lo', 'bin', 0, 1], ['hi', 'bin', 2, 3]]},
                           {'type': ('bit', 2), 'bins': [['a', 'arr', None, [1, 2]]], 'at_least': 1}], 'crosses': [['x', [0, 1], None]],
                   'options': {'at_least': 2}},
    "ignore_iff": {'cps': [{'type': ('bit', 2), 'bins': [['a', 'arr', None, [0, 3]]], 'ignore': [['ig', [3]]], 'illegal': [['il', [2]]]}],
                   'crosses': []},
}
CONFIGS["enum_cp"] = {'cps': [{'type': ('enum',), 'bins': None, 'ignore': [['ig', [4]]]}], 'crosses': [], 'values': [(0,), (7,), (4,)]}
CONFIGS["mixed_array"] = {'cps': [{'type': ('bit', 3), 'bins': [['b', 'bin', [1, 3]], ['a', 'arr', None, [1, 2], 5, [6, 7]], ['c', 'arr', 2, [0, 7]]],
                                   'illegal': [['il', [6]]]}], 'crosses': [], 'values': [(2,), (5,), (6,)]}
CONFIGS["trimmed"] = {'cps': [{'type': ('bit', 3), 'bins': [['s', 'bin', 0], ['a', 'arr', None, [0, 7]]], 'ignore': [['ig', [1, 6]]]},
                              {'type': ('bit', 3), 'bins': None, 'auto_bin_max': 64, 'ignore': [['ig', [[2, 3]]]]}],
                      'crosses': [], 'values': [(0, 0), (5, 4), (1, 2)]}
CONFIGS["many_special"] = {'cps': [{'type': ('bit', 3), 'bins': [['a', 'arr', None, [0, 2]]],
                                    'ignore': [['ig0', [3]], ['ig1', [4]], ['ig2', [5]]],
                                    'illegal': [['il0', [6]], ['il1', [7]], ['il2', [[6, 7]]], ['il3', [3]]]}],
                           'crosses': [], 'values': [(1,), (6,), (4,)]}
# wildcard bins whose pattern is a constructor parameter: same masked value, different mask
CONFIGS["wild"] = {'cps': [{'type': ('bit', 3), 'bins': [['w', 'wild', (4, 4)], ['r', 'bin', [0, 3]]]},
                           {'type': ('bit', 2), 'bins': [['a', 'arr', None, [0, 3]]]}], 'crosses': [],
                   'small_bins': [['w', 'wild', (4, 6)], ['r', 'bin', [0, 3]]], 'values': [(0, 0), (5, 1), (6, 3)]}
# one-bin-per-value arrays of different lengths (same name, same leading values)
CONFIGS["arr_len"] = {'cps': [{'type': ('bit', 3), 'bins': [['a', 'arr', None, 1, 2, 4, 7]]},
                              {'type': ('bit', 2), 'bins': [['lo', 'bin', 0, 1], ['hi', 'bin', 2, 3]]}], 'crosses': [],
                      'small_bins': [['a', 'arr', None, 1, 2, 4]], 'values': [(1, 0), (7, 3), (4, 1)]}
CONFIGS["x_atleast"] = {'cps': [{'type': ('bit', 2), 'bins': [['lo', 'bin', 0, 1], ['hi', 'bin', 2, 3]], 'at_least': 2},
                                {'type': ('bit', 2), 'bins': [['a', 'arr', None, [0, 1]], ['r', 'bin', [2, 3]]], 'at_least': 1}],
                        'crosses': [['x', [0, 1], None, {'at_least': 2}], ['y', [1, 0], None, {'at_least': 1}]]}
CONFIGS["x_other"] = {'cps': [{'type': ('bit', 2), 'bins': [['lo', 'bin', 0, 1], ['hi', 'bin', 2, 3]]},
                              {'type': ('bit', 2), 'bins': [['p', 'bin', 0, 1], ['q', 'bin', 2, 3]]},
                              {'type': ('bit', 2), 'bins': [['a', 'arr', 2, [0, 3]]]}],
                      'crosses': [['x', [1, 2], None]], 'values': [(0, 0, 0), (3, 1, 2), (2, 3, 3)]}
CONFIGS["x_weight"] = {'cps': [{'type': ('bit', 2), 'bins': [['lo', 'bin', 0, 1], ['hi', 'bin', 2, 3]], 'weight': 2},
                               {'type': ('bit', 2), 'bins': [['a', 'arr', None, [0, 3]]]}],
                       'crosses': [['x', [0, 1], None, {'weight': 3}], ['y', [1, 0], None, {'weight': 0}]], 'no_c13': True}
SHAPES = ("full", "small")     # 'small' drops the last bin entry of coverpoint 0
VALUES = {1: [(0,), (3,), (2,)], 2: [(0, 0), (3, 1), (2, 3)]}
MAX_INST = 3


def shape_spec(cfg, shape):
    sp = {'cps': [dict(c) for c in cfg['cps']], 'crosses': cfg['crosses'], 'options': cfg.get('options')}
    if shape == "small" and cfg.get('small_bins'):
        # the constructor parameter replaces the bins of coverpoint 0 (same names, other value sets)
        sp['cps'][0] = dict(sp['cps'][0])
        sp['cps'][0]['bins'] = cfg['small_bins']
    elif shape == "small" and sp['cps'][0].get('bins') and len(sp['cps'][0]['bins']) > 1:
        sp['cps'][0] = dict(sp['cps'][0])
        sp['cps'][0]['bins'] = sp['cps'][0]['bins'][:-1]
    return sp


class World(object):
    def __init__(self, cfgname):
        from vsc.impl.coverage_registry import CoverageRegistry
        CoverageRegistry.clear()
        self.cfgname = cfgname
        self.cfg = CONFIGS[cfgname.split("@")[0]]
        self.spec = {'cps': self.cfg['cps'], 'crosses': self.cfg['crosses'], 'options': self.cfg.get('options')}
        self.CG = cov.build_cg(self.spec)
        # a second covergroup class (another type name) lives in the same registry
        @vsc.covergroup
        class OtherCG(object):
            def __init__(self):
                self.with_sample(dict(z=vsc.bit_t(2)))
                self.cpz = vsc.coverpoint(self.z, bins=dict(z=vsc.bin_array([], [0, 3])))
        self.other = OtherCG()
        self.other.sample(1)
        self.insts = []       # (shape, cg object)
        self.ref = []         # per instance: dict(shape, cp hits [..], ig, il, cross hits)

    def ref_bins(self, shape):
        sp = shape_spec(self.cfg, shape)
        return [cov.ref_bins(cp) for cp in sp['cps']], sp

    def create(self, shape):
        b0 = self.cfg['cps'][0].get('bins')
        variant = {"drop_bins": [b0[-1][0]]} if (shape == "small" and b0 and len(b0) > 1) else None
        if shape == "small" and self.cfg.get('small_bins'):
            variant = {"bins0": self.cfg['small_bins']}
        cg = self.CG(variant) if variant else self.CG()
        self.insts.append((shape, cg))
        rb, sp = self.ref_bins(shape if variant or shape == "full" else "full")
        r = {"shape": shape if (variant or shape == "full") else "full",
             "cp": [[0] * len(b[0]) for b in rb], "ig": [[0] * len(b[1]) for b in rb], "il": [[0] * len(b[2]) for b in rb],
             "x": []}
        for cr in sp['crosses']:
            n = 1
            for k in cr[1]:
                n *= len(rb[k][0])
            r["x"].append([0] * n)
        self.ref.append(r)

    def sample(self, i, vals):
        shape, cg = self.insts[i]
        cg.sample(*cov.sample_args(self.spec, vals))
        r = self.ref[i]
        rb, sp = self.ref_bins(r["shape"])
        idx = []
        for k, v in enumerate(vals):
            hit = None
            for bi, b in enumerate(rb[k][0]):
                if v in b:
                    r["cp"][k][bi] += 1
                    hit = bi if hit is None else hit
            for bi, b in enumerate(rb[k][1]):
                if v in b:
                    r["ig"][k][bi] += 1
            for bi, b in enumerate(rb[k][2]):
                if v in b:
                    r["il"][k][bi] += 1
            idx.append(hit)
        for j, cr in enumerate(sp['crosses']):
            key = 0
            ok = True
            for k in cr[1]:
                if idx[k] is None:
                    ok = False
                    break
                key = key * len(rb[k][0]) + idx[k]
            if ok:
                r["x"][j][key] += 1

    # ---- reference coverage -----------------------------------------------
    def at_least(self, k):
        cp = self.cfg['cps'][k]
        if cp.get('at_least') is not None:
            return cp['at_least']
        return (self.cfg.get('options') or {}).get('at_least', 1)

    def weight(self, k):
        return self.cfg['cps'][k].get('weight') or 1

    def ref_cov(self, cp_hits, x_hits):
        items = []
        for k, h in enumerate(cp_hits):
            al = self.at_least(k)
            items.append((self.weight(k), 100.0 * sum(1 for c in h if c >= al) / len(h) if h else 0.0))
        xal = (self.cfg.get('options') or {}).get('at_least', 1)
        for j, h in enumerate(x_hits):
            cr = self.cfg['crosses'][j]
            al = (cr[3] or {}).get('at_least', xal) if len(cr) > 3 else xal
            wt = (cr[3] or {}).get('weight', 1) if len(cr) > 3 else 1
            items.append((wt, 100.0 * sum(1 for c in h if c >= al) / len(h) if h else 0.0))
        tw = sum(w for w, _ in items)
        return sum(w * c for w, c in items) / tw if tw else 100.0, [c for _, c in items]

    def type_ref(self):
        """shape -> summed hits"""
        out = {}
        for r in self.ref:
            t = out.setdefault(r["shape"], {"cp": [[0] * len(h) for h in r["cp"]], "x": [[0] * len(h) for h in r["x"]],
                                            "ig": [[0] * len(h) for h in r["ig"]], "il": [[0] * len(h) for h in r["il"]]})
            for key in ("cp", "x", "ig", "il"):
                for a, b in zip(t[key], r[key]):
                    for i in range(len(a)):
                        a[i] += b[i]
        return out

    def key(self):
        refk = tuple((r["shape"], tuple(map(tuple, r["cp"])), tuple(map(tuple, r["x"])), tuple(map(tuple, r["ig"])),
                      tuple(map(tuple, r["il"]))) for r in self.ref)
        hidden = []
        for shape, cg in self.insts:
            m = cg.get_model()
            hidden.append((tuple(tuple(cov.cp_hits(cp)[0]) for cp in m.coverpoint_l),
                           tuple(tuple(sorted(cp.unhit_s)) for cp in m.coverpoint_l),
                           tuple(tuple(cr.hit_l) for cr in m.cross_l),
                           (bool(m.coverage_calc_valid), bool(m.type_cg.coverage_calc_valid) if m.type_cg is not None else None,
                            tuple(bool(cp.coverage_calc_valid) for cp in m.coverpoint_l),
                            tuple(bool(cr.coverage_calc_valid) for cr in m.cross_l))))
        from vsc.impl.coverage_registry import CoverageRegistry
        rg = CoverageRegistry.inst()
        types = tuple((name, len(l), tuple(len(t.cg_inst_l) for t in l)) for name, l in sorted(rg.covergroup_type_m.items()))
        return (self.cfgname, refk, tuple(hidden), types)


def replay_hist(cfgname, hist):
    """'<config>' starts from one instance of the full shape, '<config>@small' from one of the small shape
    (the creation order of the shapes decides which instance founds the first type)"""
    w = World(cfgname)
    w.create("small" if cfgname.endswith("@small") else "full")
    for op in hist:
        apply_op(w, op)
    return w


def apply_op(w, op):
    if op[0] == "create":
        w.create(op[1])
    elif op[0] == "query":
        # a coverage query is an operation of its own: it fills the implementation's caches
        with common.silenced():
            for shape, cg in w.insts:
                cg.get_coverage()
                cg.get_inst_coverage()
    else:
        w.sample(op[1], tuple(op[2]))


def enabled_ops(w):
    ops = []
    if len(w.insts) < MAX_INST:
        for s in SHAPES:
            ops.append(["create", s])
    for i in range(len(w.insts)):
        for vals in (w.cfg.get('values') or VALUES[len(w.cfg['cps'])]):
            ops.append(["sample", i, list(vals)])
    ops.append(["query"])
    return ops


def check_state(w, hist, prev_cov=None):
    """compare every observable with the reference; returns (violations, coverage dict)"""
    viol = []

    def bad(sub, what, obs, exp):
        if len(viol) < 4:
            viol.append({"subcheck": sub, "case": {"cfg": w.cfgname, "hist": hist}, "observed": obs, "expected": exp,
                         "what": "config %s after %r: %s" % (w.cfgname, hist, what)})
    covs = {}
    tref = w.type_ref()
    for i, ((shape, cg), r) in enumerate(zip(w.insts, w.ref)):
        m = cg.get_model()
        got_cp = [cov.cp_hits(cp) for cp in m.coverpoint_l]
        if [g[0] for g in got_cp] != r["cp"]:
            bad("instance_hits", "instance %d holds coverpoint hits %r, its own samples give %r" % (i, [g[0] for g in got_cp], r["cp"]),
                [g[0] for g in got_cp], r["cp"])
        if [g[1] for g in got_cp] != r["ig"] or [g[2] for g in got_cp] != r["il"]:
            bad("instance_ignore_illegal_hits", "instance %d ignore/illegal counters %r / %r, expected %r / %r" % (
                i, [g[1] for g in got_cp], [g[2] for g in got_cp], r["ig"], r["il"]), [[g[1] for g in got_cp], [g[2] for g in got_cp]],
                [r["ig"], r["il"]])
        got_x = [list(cr.hit_l) for cr in m.cross_l]
        if got_x != r["x"]:
            bad("instance_cross_hits", "instance %d holds cross hits %r, its own samples give %r" % (i, got_x, r["x"]), got_x, r["x"])
        # type data
        t = m.type_cg
        tr = tref[r["shape"]]
        if t is None:
            bad("no_type", "instance %d has no type covergroup" % i, None, "type")
        else:
            tg = [cov.cp_hits(cp)[0] for cp in t.coverpoint_l]
            if tg != tr["cp"]:
                bad("type_hits", "type data seen from instance %d (shape %s) holds %r, the bin-wise sum over the instances of that "
                    "shape is %r" % (i, r["shape"], tg, tr["cp"]), tg, tr["cp"])
            tx = [list(cr.hit_l) for cr in t.cross_l]
            if tx != tr["x"]:
                bad("type_cross_hits", "type cross data %r, bin-wise sum %r" % (tx, tr["x"]), tx, tr["x"])
        # coverage numbers
        ic, items = w.ref_cov(r["cp"], r["x"])
        tc, _ = w.ref_cov(tr["cp"], tr["x"])
        with common.silenced():
            gi = cg.get_inst_coverage()
            gt = cg.get_coverage()
            cpi = [getattr(cg, "cp%d" % k).get_inst_coverage() for k in range(len(w.cfg['cps']))]
        covs[("inst", i)] = gi
        covs[("type", r["shape"])] = gt
        for nm, g, e in (("get_inst_coverage", gi, ic), ("get_coverage", gt, tc)):
            if not (0.0 <= g <= 100.0):
                bad("coverage_out_of_range", "%s() of instance %d = %r" % (nm, i, g), g, "0..100")
            if abs(g - e) > 1e-3:
                bad("coverage_value", "%s() of instance %d = %r, the weighted share of bins that reached at_least is %r "
                    "(hits %r / %r)" % (nm, i, g, round(e, 4), r["cp"] if nm == "get_inst_coverage" else tr["cp"],
                                        r["x"] if nm == "get_inst_coverage" else tr["x"]), g, round(e, 4))
            allcov = (e >= 100.0 - 1e-9)
            if (abs(g - 100.0) < 1e-9) != allcov:
                bad("coverage_100_iff_all_covered", "%s() = %r but all bins covered = %s" % (nm, g, allcov), g, allcov)
        for k, (g, e) in enumerate(zip(cpi, items)):
            if abs(g - e) > 1e-3:
                bad("coverpoint_coverage_value", "coverpoint %d of instance %d get_inst_coverage() = %r, expected %r" % (k, i, g, e), g, e)
    if prev_cov is not None:
        for k, g in covs.items():
            if k in prev_cov and g < prev_cov[k] - 1e-9:
                bad("coverage_decreased", "coverage %r went from %r to %r after the last operation" % (k, prev_cov[k], g), g, prev_cov[k])
    # separate types for separate shapes
    shapes = {}
    for (shape, cg), r in zip(w.insts, w.ref):
        shapes.setdefault(r["shape"], set()).add(id(cg.get_model().type_cg))
    if any(len(s) != 1 for s in shapes.values()) or len(set(next(iter(s)) for s in shapes.values())) != len(shapes):
        bad("type_partition", "instances by shape map to type objects %r: same shape must share one type, different shapes must not" % (
            {k: len(v) for k, v in shapes.items()},), {k: len(v) for k, v in shapes.items()}, "one type per shape")
    return viol, covs


def expand(cfgname, hist):
    w = replay_hist(cfgname, hist)
    v0, cov0 = check_state(w, hist)
    succ = []
    viol = list(v0)
    cnt = {"api_ops": 0, "states_checked": 1}
    for op in enabled_ops(w):
        cnt["api_ops"] += 1
        w2 = replay_hist(cfgname, hist)
        apply_op(w2, op)
        k2 = w2.key()          # before the oracle's own coverage queries fill the caches
        v, _ = check_state(w2, hist + [op], cov0)
        viol += v
        succ.append((op, k2))
    return {"succ": succ, "viol": viol[:6], "cnt": cnt}


def _mk(name):
    def f(hist):
        return expand(name, hist)
    f.__name__ = "expand_" + name
    return f


def world_names():
    out = []
    for n, c in CONFIGS.items():
        out.append(n)
        b0 = c['cps'][0].get('bins')
        if (b0 and len(b0) > 1) or c.get('small_bins'):
            out.append(n + "@small")
    return out


EXPAND = {}
for _n in world_names():
    EXPAND[_n] = _mk(_n)
    globals()["expand_" + _n] = EXPAND[_n]
    EXPAND[_n].__qualname__ = "expand_" + _n


def classify(v):
    return None


def run(res, only=None):
    depth = 5 if res.tier == "quick" else 6
    allstats = {}
    tot_states = tot_trans = checked = 0
    for name in world_names():
        if only and only != name:
            continue
        stats, viols, cnts = bfs.search(EXPAND[name], replay_hist(name, []).key(), depth - (1 if "@" in name else 0), seed=res.seed,
                                        max_states=(20000 if res.tier == "quick" else 100000))
        allstats[name] = stats
        tot_states += stats["states"]
        tot_trans += stats["transitions"]
        checked += cnts.get("states_checked", 0) + cnts.get("api_ops", 0)
        for v in viols:
            v["finding"] = classify(v)
            res.violation(v)
    res.cov["states"] = tot_states
    res.cov["transitions"] = tot_trans
    res.cov["traces_validated_against_impl"] = checked
    res.cov["evaluations"] = checked
    res.cov["distinct_nontrivial"] = tot_states
    res.cov["rule"] = ("a state = (per-instance shape and hit vectors of the reference; hidden: implementation hit vectors, "
                       "not-yet-covered sets, registry shape list with instance counts); distinct by construction")
    res.cov["bfs"] = allstats
    res.cov["exhaustive"] = not any(s["capped"] for s in allstats.values())
    res.cov["bounds"] = {"depth": depth, "depth_small_first": depth - 1, "max_instances": MAX_INST, "worlds": world_names()}
    res.sample({"config": "two_cp_x", "history": [["create", "small"], ["sample", 0, [3, 1]], ["sample", 1, [0, 0]]]})


def replay(rec):
    c = rec["case"]
    hist = c["hist"]
    w = replay_hist(c["cfg"], hist[:-1] if hist else [])
    v0, cov0 = check_state(w, hist[:-1] if hist else [])
    if hist:
        apply_op(w, hist[-1])
    v, _ = check_state(w, hist, cov0)
    bad = [x for x in (v0 + v) if x["subcheck"] == rec["subcheck"]]
    return (not bad), (bad[0]["what"] if bad else "counters and coverage match the reference")

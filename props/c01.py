"""C01 - returned values satisfy every active hard constraint and their type.

Exhaustive over: grammar-G1 programs x every value of the non-random fields x
every environment-answer sequence with at most `bound` non-default answers
(complete trees for the smallest programs in the thorough tier), on the real
library.  Oracle: reference evaluator (mc/ref.py), judged where the two
readings of the width/sign rules agree.
"""
from mc import common, sweep, ref
from props import solvecore as SC

PID = "C01"
ORACLES = ('c01',)


def classify(v):
    return None


def cases_for(tier):
    cs = []
    cs += SC.core_cases(tier, ORACLES, bound=1)
    cs += SC.two_statement_cases(tier, ORACLES, bound=1)
    cs += SC.enum_cases(tier, ORACLES, bound=1)
    cs += SC.three_field_cases(tier, ORACLES, bound=1)
    cs += SC.multi_statement_cases(tier, ORACLES, bound=0)
    cs += SC.deep_expr_cases(tier, ORACLES, bound=1)
    cs += SC.width_cases(tier, ORACLES)
    if tier == 'thorough':
        # dev <= 2 on the quick grammar
        q = SC.core_cases('quick', ORACLES, bound=2)
        cs += q
    return cs


def run(res, only=None):
    tier = res.tier
    total = {}
    viols = []
    parts = []
    if only in (None, 'sweep'):
        cases = cases_for(tier)
        cases = common.rotate(cases, res.seed)
        out = common.pmap(sweep.run_case, cases)
        parts.append(("sweep", cases, out))
    if only in (None, 'tt'):
        jobs = common.rotate(SC.tt_jobs(tier), res.seed)
        out = common.pmap(SC.tt_job, jobs, chunk=1)
        parts.append(("tt", jobs, out))
    nontriv = 0
    for name, cases, out in parts:
        for c, r in common.good(cases, out, res):
            cnt = r["cnt"]
            if name == "sweep":
                res.add("traces_validated_against_impl", cnt["executions"])
                res.add("transitions", cnt["transitions"])
                res.add("states", cnt["states"])
                res.add("evaluations", cnt["executions"])
                nontriv += 1 if cnt["nontrivial"] else 0
                for k in ("ambiguous", "checked_ok", "capped", "wide"):
                    res.subcount("sweep", k, cnt.get(k, 0))
                res.subcount("sweep", "programs")
            else:
                res.add("traces_validated_against_impl", cnt["entries"])
                res.add("transitions", cnt["entries"])
                res.add("states", cnt["entries"])
                res.add("evaluations", cnt["entries"])
                nontriv += cnt["nontrivial"]
                for k, v in cnt.items():
                    res.subcount("truth_table", k, v)
            for v in r["viol"]:
                # C01 owns the "returned although false" direction of the truth table
                if name == "tt" and v["subcheck"] in ("tt_lowering",) and v["observed"] != "ok":
                    continue
                if name == "tt" and v["subcheck"] in ("tt_exception", "tt_construct"):
                    continue
                v["finding"] = classify(v)
                res.violation(v)
    res.cov["distinct_nontrivial"] = nontriv
    res.cov["rule"] = ("sweep: one case = one program (AST built through the real DSL) with all values of its non-random "
                       "field; non-trivial if for some value the reference solution set is neither empty nor the full "
                       "product of the domains. truth table: one case = one statement, non-trivial if it is true for "
                       "some assignment and false for another")
    res.cov["exhaustive"] = True
    res.cov["bounds"] = {"deviation_bound": 1 if tier == 'quick' else "1 (all), 2 (quick grammar)",
                         "core_types": [str(t) for t in SC.type_pairs(tier)],
                         "width_space": "templates at widths up to 64 with boundary answer menus (non-exhaustive in the value dimension)"}
    if parts and parts[0][0] == "sweep" and parts[0][1]:
        res.sample({"program": parts[0][1][0]["prog"], "X": parts[0][1][0]["X"][:2]})
        res.sample({"program": parts[0][1][len(parts[0][1]) // 2]["prog"]})
    res.assumptions.append("reference evaluator mc/ref.py; pairs where IEEE-1800 sizing and the per-node rule disagree are skipped and counted (subchecks.sweep.ambiguous)")
    res.assumptions.append("each randint() answer is an explicit choice point; Boolector is deterministic for a fixed assertion order (checked by replay)")


def replay(rec):
    sub = rec["subcheck"]
    c = rec["case"]
    pr = _detuple(c["prog"])
    if sub.startswith("tt_"):
        r = SC.tt_job((tuple(pr['fields'][0][1:3]), tuple(pr['fields'][1][1:3]), [pr['block'][0]], c.get("variant", 0)))
        bad = [v for v in r["viol"] if v["subcheck"] == sub and v["case"].get("vals") == c.get("vals")]
        return (not bad), (bad[0]["what"] if bad else "entry agrees with the reference")
    R = sweep.Runner(pr)
    s = common.Script(c["choices"] or [])
    out, vals, mism, _ = R.execute(c["X"], s)
    s2 = common.Script(c["choices"] or [])
    out2, vals2, _, _ = R.execute(c["X"], s2)
    if (out, vals) != (out2, vals2):
        raise common.HarnessError("replay is not deterministic")
    case = {'prog': pr, 'X': [c["X"]], 'bound': 0, 'oracles': ORACLES}
    # bound 0 runs only the default schedule; re-run the recorded schedule through the oracle
    types = sweep.P.types_of(pr)
    hard = [s_ for s_ in sweep.active_stmts(pr) if s_[0] != 'soft']
    if out[0] == 'ok':
        t = ref.block_truth(hard, types, vals)
        if t is False:
            return False, "returned %r which violates the constraints" % (vals,)
    return True, "outcome %r %r" % (out, vals)


def _detuple(x):
    """JSON turned tuples into lists; the AST uses tuples for nodes and lists
    for sequences - rebuild by position."""
    def node(e):
        if isinstance(e, list) and e and isinstance(e[0], str) and e[0] in NODE_KINDS:
            k = e[0]
            if k in ('in', 'notin'):
                return (k, node(e[1]), [item(i) for i in e[2]])
            if k == 'pyin':
                return (k, node(e[1]), [item(i) for i in e[2]])
            if k == 'unique':
                return (k, list(e[1]))
            if k == 'implies':
                return (k, node(e[1]), [node(s) for s in e[2]])
            if k == 'if':
                els = e[3]
                if els is None:
                    ne = None
                elif els and els[0] == 'if':
                    ne = node(els)
                else:
                    ne = [node(s) for s in els]
                return (k, node(e[1]), [node(s) for s in e[2]], ne)
            if k == 'solve_order':
                return (k, e[1], e[2])
            if k == 'dist':
                return (k, e[1], [[i[0], node(i[1]) if isinstance(i[1], list) else i[1]] for i in e[2]])
            return tuple(node(a) for a in e)
        return e

    def item(i):
        if isinstance(i, list) and i and isinstance(i[0], str):
            return node(i)
        if isinstance(i, list):
            return [item(a) for a in i]
        return i
    pr = dict(x)
    for key in ('block', 'block2', 'inline'):
        if pr.get(key) is not None:
            pr[key] = [node(s) for s in pr[key]]
    return pr


NODE_KINDS = ('f', 'lit', 'ulit', 'slit', 'elit', 'bin', 'not', 'in', 'notin', 'psel', 'bit', 'expr', 'pyin', 'soft',
              'unique', 'implies', 'if', 'solve_order', 'dist')

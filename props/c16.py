"""C16 - a failed or aborted call does not poison later calls.

Fault enumeration on the real call paths.  For every (scenario, fault
position) pair - a user exception at the k-th statement of a constraint body
during construction (top level and inside if_then / implies / foreach bodies,
with or without a dangling expression), at the k-th statement of a
randomize_with block, in pre_randomize / post_randomize of every object of the
tree, and calls made unsatisfiable - and every follow-up sequence of length
<= 2 (construct a class that needs an idle scope stack, randomize the same
object, randomize a fresh object, inline call, construct+sample a covergroup):

  (i)  after the faulted call returned to the caller the process-wide stacks
       are empty and the victim's model tree holds no override node and no
       solver handle;
  (ii) differential twin: the same follow-ups in a session where the failed
       call was never made (run first, in the same process, from an idle
       state) give the same observations for every answer script with at most
       one non-default answer.
"""
import itertools

from mc import common
from mc.common import vsc, Script, SRandState, explore

PID = "C16"
LEVEL = "fault_enumeration"


class Boom(Exception):
    pass


PLAN = {"where": None, "k": None, "armed": False}


def maybe(where, k=None):
    if PLAN["armed"] and PLAN["where"] == where and PLAN["k"] == k:
        raise Boom("%s/%s" % (where, k))


# ------------------------------------------------------------------ global state

def stacks():
    from vsc.impl import ctor, expr_mode
    return {"constraint_scope_stack": len(ctor.constraint_scope_stack), "expr_l": len(ctor.expr_l),
            "srcinfo_mode_s": len(ctor.srcinfo_mode_s), "foreach_arr_s": len(ctor.foreach_arr_s),
            "expr_mode": len(expr_mode._expr_mode), "raw_mode": len(expr_mode._raw_mode)}


def reset_process():
    from vsc.impl import ctor, expr_mode
    ctor.test_setup()
    ctor.srcinfo_mode_s.clear()
    expr_mode._expr_mode.clear()
    expr_mode._raw_mode.clear()


def model_residue(obj):
    """override nodes / solver handles left in a randobj's model tree"""
    from vsc.model.model_visitor import ModelVisitor
    from vsc.model.constraint_override_model import ConstraintOverrideModel
    from vsc.model.constraint_dist_scope_model import ConstraintDistScopeModel
    res = {"override": 0, "dist_scope": 0, "var": 0, "node": 0}

    class V(ModelVisitor):
        def visit_constraint_override(self, c):
            res["override"] += 1
            super().visit_constraint_override(c) if hasattr(super(), "visit_constraint_override") else None

        def visit_constraint_dist_scope(self, c):
            res["dist_scope"] += 1

        def visit_scalar_field(self, f):
            if getattr(f, "var", None) is not None:
                res["var"] += 1

        def visit_enum_field(self, f):
            if getattr(f, "var", None) is not None:
                res["var"] += 1
    try:
        m = obj.get_model()
        m.accept(V())
        # direct walk as well (visitors skip what they do not know)
        stack = [m]
        seen = set()
        while stack:
            n = stack.pop()
            if id(n) in seen:
                continue
            seen.add(id(n))
            if isinstance(n, ConstraintOverrideModel):
                res["override"] += 1
            if isinstance(n, ConstraintDistScopeModel):
                res["dist_scope"] += 1
            for attr in ("field_l", "constraint_model_l", "constraint_l", "constraint_dynamic_model_l"):
                for c in getattr(n, attr, []) or []:
                    stack.append(c)
            for attr in ("true_c", "false_c", "new_constraint", "orig_constraint"):
                c = getattr(n, attr, None)
                if c is not None:
                    stack.append(c)
    except Exception as e:   # pragma: no cover
        res["walk_error"] = str(e)[:80]
    return {k: v for k, v in res.items() if v}


# ------------------------------------------------------------------ scenarios

def mk_plain():
    @vsc.randobj
    class P(object):
        def __init__(self):
            self.a = vsc.rand_bit_t(2)
            self.b = vsc.rand_bit_t(2)

        @vsc.constraint
        def ab(self):
            self.a < self.b

        def pre_randomize(self):
            maybe("pre", "P")

        def post_randomize(self):
            maybe("post", "P")
    return P


def mk_ctor_fault(shape):
    """class whose constraint body raises during construction at PLAN['k']"""
    @vsc.randobj
    class PF(object):
        def __init__(self):
            self.a = vsc.rand_bit_t(2)
            self.b = vsc.rand_bit_t(2)
            self.l = vsc.rand_list_t(vsc.bit_t(2), 2)

        @vsc.constraint
        def ab(self):
            maybe("ctor", 0)
            self.a < self.b
            maybe("ctor", 1)
            if shape == "if":
                with vsc.if_then(self.a == 1):
                    self.b == 2
                    maybe("ctor", 2)
                    self.b != 0        # dangling expression when the next line raises
                    maybe("ctor", 3)
            elif shape == "implies":
                with vsc.implies(self.a == 1):
                    self.b == 2
                    maybe("ctor", 2)
            elif shape == "foreach":
                with vsc.foreach(self.l, idx=True) as i:
                    self.l[i] < 3
                    maybe("ctor", 2)
            elif shape == "dangling":
                self.b != 0
                maybe("ctor", 2)
            maybe("ctor", 4)

        @vsc.constraint
        def zz_second(self):
            self.b != 1
            maybe("ctor", 5)

        @vsc.dynamic_constraint
        def zz_dyn(self):
            self.a != 2
            maybe("ctor", 6)
            with vsc.if_then(self.b == 1):
                self.a == 0
                maybe("ctor", 7)
    return PF


def mk_nested():
    P = mk_plain()

    @vsc.randobj
    class Sub(object):
        def __init__(self):
            self.p = vsc.rand_bit_t(2)

        @vsc.constraint
        def cp(self):
            self.p != 0

        def pre_randomize(self):
            maybe("pre", "Sub")

        def post_randomize(self):
            maybe("post", "Sub")

    @vsc.randobj
    class H(object):
        def __init__(self):
            self.s = vsc.rand_attr(Sub())
            self.k = vsc.rand_bit_t(2)
            self.l = vsc.rand_list_t(Sub())
            self.l.append(Sub())

        @vsc.constraint
        def ck(self):
            self.k > self.s.p

        def pre_randomize(self):
            maybe("pre", "H")

        def post_randomize(self):
            maybe("post", "H")
    return H


def mk_list():
    @vsc.randobj
    class L(object):
        def __init__(self):
            self.l = vsc.rand_list_t(vsc.bit_t(2), 3)
            self.n = vsc.rand_bit_t(2)

        @vsc.constraint
        def cl(self):
            with vsc.foreach(self.l, idx=True) as i:
                self.l[i] < 3
            self.l.sum > self.n

        # a foreach that is only reachable through the inline constraints of a call
        @vsc.dynamic_constraint
        def dsm(self):
            with vsc.foreach(self.l, idx=True) as i:
                self.l[i] != 1
    return L


def mk_dist():
    @vsc.randobj
    class D(object):
        def __init__(self):
            self.a = vsc.rand_bit_t(3)
            self.b = vsc.rand_bit_t(2)

        @vsc.constraint
        def cd(self):
            vsc.dist(self.a, [vsc.weight(1, 1), vsc.weight((4, 6), 2)])
            self.b < self.a

        def post_randomize(self):
            maybe("post", "D")
    return D


def mk_order_soft():
    @vsc.randobj
    class O(object):
        def __init__(self):
            self.a = vsc.rand_bit_t(2)
            self.b = vsc.rand_bit_t(2)

        @vsc.constraint
        def co(self):
            vsc.solve_order(self.a, self.b)
            self.b <= self.a
            vsc.soft(self.a == 3)

        @vsc.dynamic_constraint
        def dyn(self):
            self.a < 2

        def pre_randomize(self):
            maybe("pre", "O")
    return O


def with_block(o, kind):
    """the victim randomize_with call with fault positions 0..3"""
    with o.randomize_with() as it:
        maybe("with", 0)
        if kind == "plain":
            it.a != 0
            maybe("with", 1)
            with vsc.if_then(it.a == 1):
                it.b == 3
                maybe("with", 2)
            it.b != 0          # dangling
            maybe("with", 3)
        elif kind == "list":
            with vsc.foreach(it.l, idx=True) as i:
                it.l[i] != 1
                maybe("with", 1)
            it.n != 0
            maybe("with", 2)
        elif kind == "dist":
            it.a != 5
            maybe("with", 1)
            vsc.dist(it.b, [vsc.weight(0, 1), vsc.weight(2, 3)])
            maybe("with", 2)
        elif kind == "order":
            it.dyn()
            maybe("with", 1)
            vsc.soft(it.b == 0)
            maybe("with", 2)
        elif kind == "nested":
            it.s.p != 2
            maybe("with", 1)
            it.l[0].p != 1
            maybe("with", 2)


def free_with_block(rs):
    """victim: the free-function form on stand-alone fields, user code raising inside the block"""
    x = vsc.rand_bit_t(4)
    y = vsc.rand_bit_t(4)
    with vsc.randomize_with(x, y, randstate=rs):
        maybe("freewith", 0)
        x == 5
        maybe("freewith", 1)
        with vsc.if_then(y == 1):
            x < 9
            maybe("freewith", 2)
        y != 0          # dangling
        maybe("freewith", 3)


def unsat_call(o, kind, debug=0):
    with (o.randomize_with(solve_fail_debug=1) if debug else o.randomize_with()) as it:
        if kind == "plain":
            it.a > it.b
        elif kind == "list":
            it.dsm()
            it.l[0] == 3
        elif kind == "dist":
            it.a == 3
        elif kind == "order":
            it.b > it.a
        elif kind == "nested":
            it.k == 0


SCENARIOS = {
    "plain": mk_plain, "nested": mk_nested, "list": mk_list, "dist": mk_dist, "order": mk_order_soft,
}


def fault_menu():
    F = []
    for shape in ("plain", "if", "implies", "foreach", "dangling"):
        ks = [0, 1, 4, 5, 6, 7] + ([2, 3] if shape == "if" else [2] if shape != "plain" else [])
        for k in ks:
            F.append(("ctor", shape, k))
    for scn in SCENARIOS:
        for k in (0, 1, 2, 3):
            if scn in ("list", "dist", "order", "nested") and k == 3:
                continue
            F.append(("with", scn, k))
        F.append(("unsat", scn, None))
        F.append(("unsat_plain_randomize", scn, None))
        F.append(("unsat_debug", scn, None))       # the failing call asks for diagnostics (solve_fail_debug=1)
    for k in (0, 1, 2, 3):
        F.append(("freewith", "plain", k))
    F += [("pre", "plain", "P"), ("post", "plain", "P"), ("pre", "nested", "H"), ("pre", "nested", "Sub"),
          ("post", "nested", "H"), ("post", "nested", "Sub"), ("post", "dist", "D"), ("pre", "order", "O")]
    return F


FOLLOWUPS = ["new_order_class", "same_randomize", "fresh_randomize", "same_inline", "covergroup", "other_class_inline", "free_inline"]


def obs_fields(o):
    out = []
    for n in ("a", "b", "k", "n"):
        if hasattr(o, n):
            try:
                out.append((n, int(getattr(o, n))))
            except Exception as e:
                out.append((n, "ERR " + type(e).__name__))
    if hasattr(o, "l"):
        try:
            out.append(("l", tuple(int(x) if isinstance(x, int) else int(x.p) for x in o.l)))
        except Exception as e:
            out.append(("l", "ERR " + type(e).__name__))
    if hasattr(o, "s"):
        out.append(("s.p", int(o.s.p)))
    return tuple(out)


def do_followup(name, ctx, script):
    """returns an observation; ctx holds 'victim' (may be None), 'cls', 'kind'"""
    rs = SRandState(script)
    if name == "new_order_class":
        def f():
            @vsc.randobj
            class NewO(object):
                def __init__(self):
                    self.a = vsc.rand_bit_t(2)
                    self.b = vsc.rand_bit_t(2)

                @vsc.constraint
                def co(self):
                    vsc.solve_order(self.a, self.b)     # requires scope depth exactly 1
                    self.b < self.a
            o = NewO()
            o.set_randstate(rs)
            o.randomize()
            return obs_fields(o)
        return common.outcome(f)
    if name == "same_randomize":
        o = ctx.get("victim")
        if o is None:
            return ("skip",)

        def f():
            o.set_randstate(rs)
            o.randomize()
            return obs_fields(o)
        return common.outcome(f)
    if name == "fresh_randomize":
        def f():
            o = ctx["cls"]()
            o.set_randstate(rs)
            o.randomize()
            return obs_fields(o)
        return common.outcome(f)
    if name == "same_inline":
        o = ctx.get("victim")
        if o is None:
            return ("skip",)

        def f():
            o.set_randstate(rs)
            with o.randomize_with() as it:
                if ctx["kind"] == "plain":
                    it.a == 1
                elif ctx["kind"] == "list":
                    it.l[1] == 2
                elif ctx["kind"] == "dist":
                    it.b == 0
                elif ctx["kind"] == "order":
                    it.a != 3
                else:
                    it.k == 3
            return obs_fields(o)
        return common.outcome(f)
    if name == "other_class_inline":
        def f():
            P = ctx["aux"]
            o = P()
            o.set_randstate(rs)
            with o.randomize_with() as it:
                with vsc.implies(it.a == 0):
                    it.b == 3
            return obs_fields(o)
        return common.outcome(f)
    if name == "free_inline":
        def f():
            u = vsc.rand_bit_t(4)
            v = vsc.rand_bit_t(4)
            with vsc.randomize_with(u, v, randstate=rs):
                u == 7
                v < u
            return (int(u.get_val()), int(v.get_val()))
        return common.outcome(f)
    if name == "covergroup":
        def f():
            @vsc.covergroup
            class cg(object):
                def __init__(self):
                    self.with_sample(dict(v=vsc.bit_t(2)))
                    self.cp = vsc.coverpoint(self.v, bins=dict(b=vsc.bin_array([], [0, 3])))
            c = cg()
            c.sample(2)
            c.sample(2)
            m = c.get_model().coverpoint_l[0]
            return tuple(m.get_bin_hits(i) for i in range(m.get_n_bins()))
        return common.outcome(f)
    raise ValueError(name)


def run_session(fault, followups, scripts, with_fault):
    """One session from an idle process state.  Returns (obs list, idle report)"""
    reset_process()
    kind = fault[1] if fault[0] != "ctor" else "plain"
    cls = SCENARIOS[kind]()
    aux = mk_plain()
    ctx = {"cls": cls, "kind": kind, "victim": None, "aux": aux}
    idle = None
    if fault[0] != "ctor":
        ctx["victim"] = cls()
    victim_obs = None
    if with_fault:
        PLAN.update({"where": fault[0] if fault[0] in ("ctor", "with", "pre", "post", "freewith") else None, "k": fault[2], "armed": True})
        try:
            if fault[0] == "ctor":
                PF = mk_ctor_fault(fault[1])
                victim_obs = common.outcome(lambda: PF())
            elif fault[0] == "with":
                o = ctx["victim"]
                o.set_randstate(SRandState(Script([])))
                victim_obs = common.outcome(lambda: with_block(o, kind))
            elif fault[0] == "freewith":
                victim_obs = common.outcome(lambda: free_with_block(SRandState(Script([]))))
            elif fault[0] in ("pre", "post"):
                o = ctx["victim"]
                o.set_randstate(SRandState(Script([])))
                victim_obs = common.outcome(o.randomize)
            elif fault[0] == "unsat":
                o = ctx["victim"]
                o.set_randstate(SRandState(Script([])))
                victim_obs = common.outcome(lambda: unsat_call(o, kind))
            elif fault[0] == "unsat_debug":
                o = ctx["victim"]
                o.set_randstate(SRandState(Script([])))
                victim_obs = common.outcome(lambda: unsat_call(o, kind, debug=1))
            elif fault[0] == "unsat_plain_randomize":
                # make the class block itself unsatisfiable through rand_mode: freeze fields at violating values
                o = ctx["victim"]
                o.set_randstate(SRandState(Script([])))
                victim_obs = common.outcome(lambda: unsat_call(o, kind))
                victim_obs2 = common.outcome(lambda: unsat_call(o, kind))     # fail twice in a row
        finally:
            PLAN["armed"] = False
        idle = {"stacks": stacks(), "residue": model_residue(ctx["victim"]) if ctx["victim"] is not None else {}}
    obs = []
    for name, sc in zip(followups, scripts):
        s = Script(sc)
        obs.append((name, do_followup(name, ctx, s)))
    return obs, idle, victim_obs


def run_case(case):
    fault = tuple(case["fault"])
    followups = case["followups"]
    cnt = {"executions": 0, "transitions": 0, "faults": 1, "states": 0}
    viol = []

    def bad(sub, what, obs, exp, scripts=None):
        if len(viol) < 4:
            viol.append({"subcheck": sub, "case": {"fault": list(fault), "followups": followups, "scripts": scripts},
                         "observed": obs, "expected": exp, "what": what})
    # (i) idle + residue right after the faulted call
    obs_a, idle, vobs = run_session(fault, [], [], True)
    cnt["executions"] += 1
    expected_exc = {"ctor": "Boom", "with": "Boom", "pre": "Boom", "post": "Boom", "freewith": "Boom"}.get(fault[0])
    if vobs is not None:
        if expected_exc and not (vobs[0] == "exc" and vobs[1] == "Boom"):
            # a with-block fault may surface as SolveFailure only if the partial block is unsat; it never is here
            bad("fault_not_propagated", "the user exception at %r did not reach the caller: %r" % (fault, vobs), list(vobs), "Boom")
        if fault[0].startswith("unsat") and vobs[0] != "solvefail":
            bad("unsat_not_reported", "unsatisfiable victim call ended with %r" % (vobs,), list(vobs), "SolveFailure")
    if idle is not None:
        busy = {k: v for k, v in idle["stacks"].items() if v}
        if busy:
            bad("shared_state_not_idle", "after the call aborted at %r the shared construction state is not idle: %r" % (fault, busy),
                busy, "all stacks empty")
        if idle["residue"]:
            bad("model_residue", "after the call aborted at %r the victim's model still holds %r" % (fault, idle["residue"]),
                idle["residue"], "no override / dist-scope node, no solver handle")
    # (ii) twin sessions under identical scripts, dev <= 1 on the follow-ups
    seen = set()

    def twin(scripts):
        ob, _, _ = run_session(fault, followups, scripts, False)
        try:
            oa, _, _ = run_session(fault, followups, scripts, True)
        except common.HarnessError as e:
            # the answer script was recorded on the pristine twin; if the faulted twin asks for a different
            # number of random values it already behaves differently
            oa = [("diverged", str(e)[:80])]
        return ob, oa
    # default scripts first, then one deviation at each choice point of each follow-up
    base = [[] for _ in followups]
    todo = [base]
    explored = 0
    while todo:
        scripts = todo.pop()
        key = repr(scripts)
        if key in seen:
            continue
        seen.add(key)
        # record traces of twin B to derive deviations
        reset_process()
        ob, oa = twin(scripts)
        explored += 1
        cnt["executions"] += 2
        cnt["transitions"] += 2 * len(followups) + 1
        if ob != oa:
            bad("later_call_differs",
                "after the call aborted at %r the follow-ups %r behave differently from a session where it never happened: %r vs pristine %r"
                % (fault, followups, oa, ob), [list(map(str, oa))], [list(map(str, ob))], scripts)
            break
        if scripts is base and case.get("dev", 1) >= 1:
            # derive one-deviation scripts from the traces of the pristine twin
            for fi, name in enumerate(followups):
                tr = trace_of(fault, followups, fi)
                for i, (c, n, alts, _tag) in enumerate(tr):
                    for alt in (alts if alts is not None else range(n)):
                        if alt != c and (n <= 4 or alt in (n - 1,)):
                            sc = [list(x) for x in base]
                            sc[fi] = [t[0] for t in tr[:i]] + [alt]
                            todo.append(sc)
    cnt["states"] = explored
    reset_process()
    return {"cnt": cnt, "viol": viol}


def trace_of(fault, followups, fi):
    """choice trace of follow-up fi in the pristine session under default answers"""
    reset_process()
    kind = fault[1] if fault[0] != "ctor" else "plain"
    cls = SCENARIOS[kind]()
    ctx = {"cls": cls, "kind": kind, "victim": None if fault[0] == "ctor" else cls(), "aux": mk_plain()}
    tr = []
    for i, name in enumerate(followups):
        s = Script([])
        do_followup(name, ctx, s)
        if i == fi:
            tr = s.trace
            break
    return tr


def cases_for(tier):
    cases = []
    F = fault_menu()
    singles = [[f] for f in FOLLOWUPS]
    pairs = [list(p) for p in itertools.permutations(FOLLOWUPS, 2)]
    if tier == "quick":
        pairs = [p for i, p in enumerate(pairs) if i % 3 == 0]
    for f in F:
        for fu in singles + pairs:
            cases.append({"fault": list(f), "followups": fu, "dev": 1})
    return cases


def classify(v):
    return None


def run(res, only=None):
    cases = common.rotate(cases_for(res.tier), res.seed)
    out = common.pmap(run_case, cases)
    fault_set = set()
    for c, r in common.good(cases, out, res):
        cnt = r["cnt"]
        res.add("traces_validated_against_impl", cnt["executions"])
        res.add("transitions", cnt["transitions"])
        res.add("states", cnt["states"])
        res.add("evaluations", cnt["executions"])
        fault_set.add(tuple(map(str, c["fault"])))
        for v in r["viol"]:
            v["finding"] = classify(v)
            res.violation(v)
    res.cov["distinct_nontrivial"] = len(cases)
    res.cov["fault_positions"] = len(fault_set)
    res.cov["rule"] = ("one case = (fault position, follow-up sequence); every case injects a real fault (user exception or "
                       "unsatisfiable call) and compares with the pristine twin; distinct by construction")
    res.cov["exhaustive"] = True
    res.sample({"fault": ["ctor", "if", 3], "followups": ["new_order_class"]})
    res.sample({"fault": ["with", "dist", 2], "followups": ["same_randomize", "same_inline"]})
    res.assumptions.append("twin B runs first in the same process from an explicitly reset state, so poison left by the fault cannot hide in both twins")


def replay(rec):
    c = rec["case"]
    r = run_case({"fault": c["fault"], "followups": c["followups"], "dev": 1})
    bad = [v for v in r["viol"] if v["subcheck"] == rec["subcheck"]]
    return (not bad), (bad[0]["what"] if bad else "idle and identical to the pristine twin")

"""Object-tree generator shared by C08 and C17.

A tree spec is a dict:
  kind   'leaf' | 'mid'     class of the two siblings s1, s2 (always the same class)
  m1,m2  True/False         s1 / s2 declared random (rand_attr) or not (attr)
  mi     True/False         (mid only) Mid.s declared random or not
  lst    None|'rand'|'plain' optional list of two Leaf: rand_list_t / list_t
  cons   tuple of names     cross-level constraints of the top block
  pre_n  int|None           Top.pre_randomize assigns this value to the non-random field n

Classes: Leaf{x,y rand bit2; block x<y}  Mid{s: Leaf; z rand bit2; block z!=0; z<=s.y}
         Top{a rand bit2; n non-rand bit2; s1,s2; l; block: a<=n + cross-level constraints}
"""
import itertools

from mc import common
from mc.common import vsc

LOG = []           # (path, phase, snapshot)
ROOT = {"top": None}


def snapshot(top):
    """all scalar values of the tree by path"""
    out = {"a": int(top.a), "n": int(top.n)}
    for nm in ("s1", "s2"):
        s = getattr(top, nm)
        _snap_obj(s, nm, out)
    if hasattr(top, "l"):
        for i, e in enumerate(top.l):
            _snap_obj(e, "l[%d]" % i, out)
    return out


def _snap_obj(o, path, out):
    if hasattr(o, "z"):
        out[path + ".z"] = int(o.z)
        _snap_obj(o.s, path + ".s", out)
    else:
        out[path + ".x"] = int(o.x)
        out[path + ".y"] = int(o.y)


def _log(obj, phase):
    top = ROOT["top"]
    LOG.append((getattr(obj, "_tag", "?"), phase, snapshot(top) if top is not None else None))


def mk_classes(spec):
    @vsc.randobj
    class LeafBase(object):
        def __init__(self):
            self.x = vsc.rand_bit_t(2)
            self.y = vsc.rand_bit_t(2)

        @vsc.constraint
        def cxy(self):
            self.x < self.y

    @vsc.randobj
    class Leaf(LeafBase):
        """the callbacks are defined by the derived class only"""
        def __init__(self):
            super().__init__()

        def pre_randomize(self):
            _log(self, "pre")

        def post_randomize(self):
            _log(self, "post")

    @vsc.randobj
    class Mid(object):
        def __init__(self):
            self.s = vsc.rand_attr(Leaf()) if spec.get("mi", True) else vsc.attr(Leaf())
            self.z = vsc.rand_bit_t(2)

        @vsc.constraint
        def cz(self):
            self.z != 0
            self.z <= self.s.y

        def pre_randomize(self):
            _log(self, "pre")

        def post_randomize(self):
            _log(self, "post")

    S = Leaf if spec["kind"] == "leaf" else Mid
    cons = spec.get("cons", ())
    lst = spec.get("lst")
    pre_n = spec.get("pre_n")

    @vsc.randobj
    class Top(object):
        def __init__(self):
            self.a = vsc.rand_bit_t(2)
            self.n = vsc.bit_t(2, i=3)
            self.s1 = vsc.rand_attr(S()) if spec["m1"] else vsc.attr(S())
            self.s2 = vsc.rand_attr(S()) if spec["m2"] else vsc.attr(S())
            if lst == "rand":
                self.l = vsc.rand_list_t(Leaf())
            elif lst == "randsz":
                self.l = vsc.randsz_list_t(Leaf())
            elif lst == "plain":
                self.l = vsc.list_t(Leaf())
            if lst:
                for _ in range(2):
                    self.l.append(Leaf())

        @vsc.constraint
        def ctop(self):
            self.a <= self.n
            for c in cons:
                if c == "K1":
                    (self.s1.x == self.a) if spec["kind"] == "leaf" else (self.s1.z == self.a)
                elif c == "K2":
                    (self.s1.y != self.s2.y) if spec["kind"] == "leaf" else (self.s1.z != self.s2.z)
                elif c == "K3":
                    self.l[1].x > self.a
                elif c == "K4":
                    with vsc.foreach(self.l, idx=True, it=True) as (i, it):
                        it.y == i + 2
                elif c == "K5":
                    self.s1.s.x < self.s2.s.x
                elif c == "K6":
                    self.l[0].y != self.l[1].y
                elif c == "K7":
                    # a non-random field (possibly assigned by pre_randomize) decides a branch inside a foreach
                    with vsc.foreach(self.l, it=True) as it:
                        with vsc.if_then(self.n == 0):
                            it.y == 3
                        with vsc.else_then:
                            it.y != 3
                elif c == "K8":
                    self.l.size == 2

        def pre_randomize(self):
            if pre_n is not None:
                self.n = pre_n
            _log(self, "pre")

        def post_randomize(self):
            _log(self, "post")
    return Leaf, Mid, Top


def tag_tree(top, spec):
    top._tag = "top"
    for nm in ("s1", "s2"):
        s = getattr(top, nm)
        s._tag = nm
        if spec["kind"] == "mid":
            s.s._tag = nm + ".s"
    if spec.get("lst"):
        for i, e in enumerate(top.l):
            e._tag = "l[%d]" % i


def build(spec):
    Leaf, Mid, Top = mk_classes(spec)
    top = Top()
    tag_tree(top, spec)
    ROOT["top"] = top
    return top


# ------------------------------------------------------------------ reference

def objects(spec):
    """path -> (class kind, random-in-call?)  for every randobj below top"""
    out = {}
    for nm, m in (("s1", spec["m1"]), ("s2", spec["m2"])):
        out[nm] = (spec["kind"], m)
        if spec["kind"] == "mid":
            out[nm + ".s"] = ("leaf", m and spec.get("mi", True))
    if spec.get("lst"):
        for i in range(2):
            out["l[%d]" % i] = ("leaf", spec["lst"] in ("rand", "randsz"))
    return out


def scalar_fields(spec):
    """path -> random-in-call?"""
    f = {"a": True, "n": False}
    for p, (k, r) in objects(spec).items():
        if k == "leaf":
            f[p + ".x"] = r
            f[p + ".y"] = r
        else:
            f[p + ".z"] = r
    return f


def constraints_hold(spec, v, inline=None):
    """all constraints active in the call on path-named values v"""
    if not v["a"] <= v["n"]:
        return False
    objs = objects(spec)
    for p, (k, r) in objs.items():
        if not r:
            continue       # blocks of a non-random sub-object are not imposed
        if k == "leaf":
            if not v[p + ".x"] < v[p + ".y"]:
                return False
        else:
            if not (v[p + ".z"] != 0 and v[p + ".z"] <= v[p + ".s.y"]):
                return False
    leaf = spec["kind"] == "leaf"
    for c in spec.get("cons", ()):
        if c == "K1":
            if not ((v["s1.x"] if leaf else v["s1.z"]) == v["a"]):
                return False
        elif c == "K2":
            if not ((v["s1.y"] != v["s2.y"]) if leaf else (v["s1.z"] != v["s2.z"])):
                return False
        elif c == "K3":
            if not v["l[1].x"] > v["a"]:
                return False
        elif c == "K4":
            if not (v["l[0].y"] == 2 and v["l[1].y"] == 3):
                return False
        elif c == "K5":
            if not v["s1.s.x"] < v["s2.s.x"]:
                return False
        elif c == "K6":
            if not v["l[0].y"] != v["l[1].y"]:
                return False
        elif c == "K7":
            for i in (0, 1):
                if (v["l[%d].y" % i] == 3) != (v["n"] == 0):
                    return False
        elif c == "K8":
            pass
    if inline == "a==1":
        if v["a"] != 1:
            return False
    return True


def solutions(spec, fixed, inline=None, limit=400000):
    """list of dicts over the random fields (enumeration with the non-random
    fields fixed to 'fixed')"""
    sf = scalar_fields(spec)
    rnames = [p for p, r in sf.items() if r]
    v = dict(fixed)
    sols = []
    n = 0
    for tup in itertools.product(range(4), repeat=len(rnames)):
        n += 1
        if n > limit:
            return None
        for p, x in zip(rnames, tup):
            v[p] = x
        if constraints_hold(spec, v, inline):
            sols.append(tup)
    return rnames, sols


def all_specs(tier):
    specs = []
    for kind in ("leaf", "mid"):
        for m1, m2 in itertools.product((True, False), repeat=2):
            for mi in ((True, False) if kind == "mid" else (True,)):
                for lst in (None, "rand", "plain"):
                    menu = [(), ("K1",), ("K2",), ("K1", "K2")]
                    if lst:
                        menu += [("K3",), ("K4",), ("K6",), ("K3", "K2")]
                    if kind == "mid":
                        menu += [("K5",), ("K5", "K1")]
                    if lst == "rand":
                        menu += [("K7",), ("K7", "K1")]
                    for cons in menu:
                        specs.append({"kind": kind, "m1": m1, "m2": m2, "mi": mi, "lst": lst, "cons": cons, "pre_n": None})
                if kind == "leaf":
                    # random-size list of objects (size pinned to its two elements)
                    for cons in (("K8",), ("K8", "K6")):
                        specs.append({"kind": kind, "m1": m1, "m2": m2, "mi": mi, "lst": "randsz", "cons": cons, "pre_n": None})
    return specs


def preset(top, spec, values):
    """assign path-named values (used to put non-random sub-objects into states
    that violate their own block)"""
    for p, x in values.items():
        o = top
        parts = p.replace("]", "").replace("[", ".").split(".")
        for part in parts[:-1]:
            o = o[int(part)] if part.isdigit() else getattr(o, part)
        setattr(o, parts[-1], x)

"""Program spaces shared by C01 / C02 / C14 and the truth-table sub-check."""
import itertools

from mc import common, gen, ref, sweep, prog as P
from mc.common import vsc
from mc.gen import U1, U2, U3, S1, S2, S3, fld


def type_pairs(tier):
    if tier == 'quick':
        return [(U3, S3), (U2, U3), (S3, S3), (U3, U3), (S2, U3), (S3, U2)]
    ts = [U1, U2, U3, S2, S3, S1]
    return [(a, b) for a in ts for b in ts]


def xvals(tx):
    return list(ref.dom(tx[1], tx[0] == 'int'))


def core_cases(tier, oracles, bound=1, calls=('randomize',), seed=0):
    """(program, X list) cases of the core space."""
    cases = []
    pairs = type_pairs(tier)
    for pi, (tp, tq) in enumerate(pairs):
        # the non-random third field: present for a subset of the pairs in quick
        xopts = [None, U2, S2] if tier != 'quick' else ([None, (S2 if pi % 2 else U2)])
        for tx in xopts:
            with_x = tx is not None
            stmts = gen.single_statements(tp, tq, with_x, tier)
            if with_x:
                # only the statements that mention x are new with respect to the x-less space
                stmts = [s for s in stmts if 'x' in ref.stmt_fields(s)]
            fields = [fld('p', tp), fld('q', tq)]
            if with_x:
                fields.append(fld('x', tx, rnd=False))
            Xs = [{'x': v} for v in xvals(tx)] if with_x else [{}]
            for st in stmts:
                for ck in calls:
                    if ck == 'randomize' or ck == 'vsc.randomize':
                        pr = {'fields': fields, 'block': [st], 'call': ck}
                    elif ck == 'vsc.randomize_with_fields':
                        pr = {'fields': fields, 'block': [], 'inline': [st], 'call': ck}
                    else:
                        pr = {'fields': fields, 'block': [], 'inline': [st], 'call': ck}
                    cases.append({'prog': pr, 'X': Xs, 'bound': bound, 'oracles': oracles})
    return cases


def two_statement_cases(tier, oracles, bound=1):
    """programs with two statements: class block + second statement either in
    the same block, in a second block, or inline (all call kinds)."""
    cases = []
    pairs = [(U3, S3), (U2, U2)] if tier == 'quick' else [(U3, S3), (U2, U2), (S3, S3), (U3, U3), (S2, U3)]
    for tp, tq in pairs:
        fields = [fld('p', tp), fld('q', tq), fld('x', U2, rnd=False)]
        m = [('expr', r) for r in gen.rel_menu(True)]
        m += [('expr', ('in', gen.P_, [[1, 2], 5])), ('expr', ('bin', '==', ('bin', '+', gen.P_, gen.Q_), ('lit', 3))),
              ('implies', ('bin', '==', gen.P_, ('lit', 1)), [('expr', ('bin', '==', gen.Q_, ('lit', 2)))]),
              ('if', ('bin', '<', gen.P_, gen.X_), [('expr', ('bin', '==', gen.Q_, ('lit', 1)))],
               [('expr', ('bin', '!=', gen.Q_, ('lit', 1)))])]
        Xs = [{'x': v} for v in range(4)]
        for s1, s2 in itertools.permutations(m, 2):
            shapes = [
                {'block': [s1, s2], 'call': 'randomize'},
                {'block': [s1], 'block2': [s2], 'call': 'randomize'},
                {'block': [s1], 'inline': [s2], 'call': 'randomize_with'},
            ]
            if tier != 'quick' or (tp, tq) == (U3, S3):
                shapes += [
                    {'block': [s1], 'inline': [s2], 'call': 'vsc.randomize_with'},
                    {'block': [s1, s2], 'call': 'vsc.randomize'},
                    {'block': [], 'inline': [s1, s2], 'call': 'vsc.randomize_with_fields'},
                ]
            for sh in shapes:
                pr = dict(sh)
                pr['fields'] = fields
                cases.append({'prog': pr, 'X': Xs, 'bound': bound, 'oracles': oracles})
    return cases


def multi_statement_cases(tier, oracles, bound=1):
    """three and four statements in one block around a non-random field x: every ordered selection from a
    menu in which statements link / do not link the random fields - the order in which rand sets are created,
    merged and referenced again is what is enumerated here"""
    cases = []
    R_ = ('f', 'r')
    for tp, tq, tr in ([(U3, U3, U3)] if tier == 'quick' else [(U3, U3, U3), (U3, S3, U2), (S3, S3, S3)]):
        fields = [fld('p', tp), fld('q', tq), fld('r', tr), fld('x', U2, rnd=False)]
        m = [('expr', ('bin', '>', gen.P_, gen.X_)), ('expr', ('bin', '<', gen.Q_, ('lit', 6))), ('expr', ('bin', '<', gen.P_, gen.Q_)),
             ('expr', ('bin', '>', gen.Q_, gen.X_)), ('expr', ('bin', '!=', R_, gen.X_)), ('expr', ('bin', '<=', R_, gen.P_)),
             ('expr', ('bin', '==', ('bin', '+', gen.Q_, R_), ('lit', 7))), ('expr', ('bin', '>=', gen.X_, R_)),
             ('expr', ('bin', '<', gen.X_, ('lit', 2))), ('expr', ('bin', '!=', gen.X_, ('lit', 3)))]   # mention only the non-random field
        Xs = [{'x': v} for v in range(4)]
        for n in (3, 4):
            sel = list(itertools.permutations(range(len(m)), n))
            if tier == 'quick':
                sel = [t for i, t in enumerate(sel) if (n == 3 and i % 3 == 0) or (n == 4 and i % 9 == 0)]
            for t in sel:
                pr = {'fields': fields, 'block': [m[i] for i in t], 'call': 'randomize'}
                cases.append({'prog': pr, 'X': Xs, 'bound': bound, 'oracles': oracles})
    return cases


def enum_cases(tier, oracles, bound=1):
    """enum fields: restricted to their enumerators, relations with enumerator literals"""
    cases = []
    E = [-2, 1, 5]
    fields = [['p', 'enum', 32, True, 0], fld('q', S3), ['x', 'enum', 32, False, 0]]
    EP = ('f', 'p')
    stmts = [[]]
    for v in E:
        stmts.append([('expr', ('bin', '!=', EP, ('elit', v)))])
        stmts.append([('expr', ('bin', '==', EP, ('elit', v)))])
        stmts.append([('expr', ('bin', '<', EP, ('elit', v)))])
        stmts.append([('expr', ('bin', '>', EP, ('elit', v)))])
    stmts.append([('expr', ('bin', '==', EP, ('f', 'x')))])
    stmts.append([('expr', ('bin', '!=', EP, ('f', 'x')))])
    stmts.append([('expr', ('bin', '<', EP, ('f', 'q')))])
    stmts.append([('expr', ('bin', '==', EP, ('f', 'q')))])
    stmts.append([('expr', ('in', EP, [('elit', -2), ('elit', 5)]))])
    # every non-empty subset of the enumerators, in both listing orders, alone and next to a relation
    for sub in ([-2], [1], [5], [-2, 1], [1, 5], [5, -2], [1, -2], [5, 1], [-2, 1, 5], [5, 1, -2]):
        stmts.append([('expr', ('in', EP, [('elit', v) for v in sub]))])
        stmts.append([('expr', ('in', EP, [('elit', v) for v in sub])), ('expr', ('bin', '!=', EP, ('f', 'x')))])
        stmts.append([('expr', ('in', EP, [('elit', v) for v in sub])), ('expr', ('bin', '<=', EP, ('elit', 1)))])
    stmts.append([('expr', ('notin', EP, [('elit', 1)]))])
    stmts.append([('expr', ('bin', '>', EP, ('lit', 1)))])
    stmts.append([('expr', ('bin', '==', EP, ('lit', 3)))])       # not an enumerator: unsat
    stmts.append([('expr', ('bin', '<', EP, ('lit', -2)))])       # unsat
    stmts.append([('if', ('bin', '==', EP, ('elit', 1)), [('expr', ('bin', '==', ('f', 'q'), ('lit', 2)))],
                  [('expr', ('bin', '<', ('f', 'q'), ('lit', 0)))])])
    Xs = [{'x': v} for v in E]
    for st in stmts:
        for ck in ('randomize', 'randomize_with'):
            pr = {'fields': fields, 'call': ck}
            if ck == 'randomize':
                pr['block'] = st
            else:
                pr['block'] = []
                pr['inline'] = st
            cases.append({'prog': pr, 'X': Xs, 'bound': bound, 'oracles': oracles})
    return cases


def deep_expr_cases(tier, oracles, bound=1):
    """thorough tier only: both sides of a relation compound, depth-3 arithmetic, part-selects and bit-selects as
    operands of arithmetic (15.5 k programs; the width/sign context has to be carried through two nodes)"""
    if tier == 'quick':
        return []
    P_, Q_, X_ = gen.P_, gen.Q_, gen.X_
    bs = [('lit', 1), ('ulit', 2, 2), ('slit', -1, 2)]
    st = []
    for rel in ('==', '<', '>='):
        for op in ref.ARI:
            for op2 in ref.ARI:
                for b in bs[:2]:
                    for c in bs[:2]:
                        st.append(('expr', ('bin', rel, ('bin', op, P_, b), ('bin', op2, Q_, c))))
                for b in bs:
                    st.append(('expr', ('bin', rel, ('bin', op, ('bin', op2, P_, Q_), b), X_)))
                    st.append(('expr', ('bin', rel, ('bin', op, b, ('bin', op2, P_, X_)), Q_)))
    for op in ref.ARI:
        for rel in ref.REL:
            st.append(('expr', ('bin', rel, P_, ('bin', op, ('psel', 'x', 1, 0), ('lit', 1)))))
            st.append(('expr', ('bin', rel, ('bin', op, ('psel', 'p', 2, 1), Q_), ('lit', 2))))
            st.append(('expr', ('bin', rel, ('bin', op, ('psel', 'p', 1, 0), ('bit', 'x', 1)), Q_)))
            st.append(('expr', ('bin', rel, ('bin', op, Q_, ('psel', 'p', 2, 1)), ('ulit', 2, 2))))
    cases = []
    for tp, tq in [(U3, S3), (S3, U3), (U3, U3)]:
        for tx in (U2, S2):
            fields = [fld('p', tp), fld('q', tq), fld('x', tx, rnd=False)]
            Xs = [{'x': v} for v in xvals(tx)]
            for s in st:
                uses_x = 'x' in ref.stmt_fields(s)
                if tx == S2 and not uses_x:
                    continue
                cases.append({'prog': {'fields': fields, 'block': [s], 'call': 'randomize'}, 'X': Xs if uses_x else [{'x': 0}],
                              'bound': bound, 'oracles': oracles})
    return cases


def three_field_cases(tier, oracles, bound=1):
    """three random fields: unique over three, chains, merged rand sets"""
    cases = []
    for t in ([U2] if tier == 'quick' else [U2, S2, U3]):
        fields = [fld('p', t), fld('q', t), fld('r', t), fld('x', U2, rnd=False)]
        R_ = ('f', 'r')
        blocks = [
            [('unique', ['p', 'q', 'r'])],
            [('unique', ['p', 'q', 'r']), ('expr', ('bin', '<', gen.P_, gen.X_))],
            [('expr', ('bin', '<', gen.P_, gen.Q_)), ('expr', ('bin', '<', gen.Q_, R_))],
            [('expr', ('bin', '<', gen.P_, gen.Q_)), ('expr', ('bin', '==', R_, gen.X_))],
            [('expr', ('bin', '==', ('bin', '+', gen.P_, gen.Q_), R_))],
            [('expr', ('bin', '<', gen.P_, gen.Q_)), ('expr', ('bin', '<', R_, gen.X_)), ('expr', ('bin', '!=', gen.Q_, R_))],
            [('implies', ('bin', '==', gen.P_, ('lit', 0)), [('expr', ('bin', '==', gen.Q_, R_))])],
            [('if', ('bin', '<', gen.P_, gen.X_), [('unique', ['q', 'r'])], [('expr', ('bin', '==', gen.Q_, R_))])],
            [('unique', ['p', 'q']), ('unique', ['q', 'r'])],
        ]
        for b in blocks:
            pr = {'fields': fields, 'block': b, 'call': 'randomize'}
            cases.append({'prog': pr, 'X': [{'x': v} for v in range(4)], 'bound': bound, 'oracles': oracles})
    return cases


# ------------------------------------------------------------------ width space

def width_cases(tier, oracles):
    """single-statement templates at widths up to 64 (boundary menus; declared
    non-exhaustive in the value dimension).  The reference does not enumerate
    here: C01's direction (returned values satisfy the statement) needs no
    solution set; satisfiability is known by witness for the C02 direction."""
    ws = [1, 2, 3, 4, 7, 8, 16, 31, 32, 33, 63, 64] if tier == 'quick' else list(range(1, 65))
    cases = []
    for w in ws:
        for sg in (False, True):
            t = ('int', w) if sg else ('bit', w)
            mx = gen.tmax(t)
            mn = gen.tmin(t)
            xm = sorted(set(v for v in [0, 1, mx, mx - 1, mn, mn + 1, -1 if sg else mx // 2] if mn <= v <= mx))
            fields = [fld('p', t), fld('q', t), fld('x', t, rnd=False)]
            T = []
            for rel in ref.REL:
                T.append(('expr', ('bin', rel, gen.P_, gen.X_)))
                T.append(('expr', ('bin', rel, gen.P_, gen.Q_)))
            for op in ('+', '-', '&', '|', '^'):
                T.append(('expr', ('bin', '==', ('bin', op, gen.P_, gen.Q_), gen.X_)))
            T.append(('expr', ('bin', '<', ('bin', '+', gen.P_, gen.Q_), gen.X_)))
            T.append(('expr', ('in', gen.P_, [[gen.X_, ('lit', mx if mx < 2 ** 31 else 1)]])) if w < 32 else
                     ('expr', ('in', gen.P_, [gen.X_, gen.Q_])))
            T.append(('expr', ('bin', '==', ('psel', 'p', w - 1, w - 1), ('lit', 1))))
            T.append(('expr', ('bin', '==', ('psel', 'p', w - 1, 0), gen.X_)))
            T.append(('expr', ('bin', '==', ('bit', 'p', 0), ('bit', 'q', w - 1))))
            T.append(('if', ('bin', '<', gen.P_, gen.X_), [('expr', ('bin', '==', gen.Q_, gen.X_))],
                      [('expr', ('bin', '!=', gen.Q_, gen.X_))]))
            T.append(('implies', ('bin', '==', gen.P_, gen.X_), [('expr', ('bin', '==', gen.Q_, gen.P_))]))
            T.append(('unique', ['p', 'q']))
            T.append(('expr', ('bin', '&', ('bin', '>=', gen.P_, gen.X_), ('bin', '<=', gen.Q_, gen.X_))))
            for st in T:
                pr = {'fields': fields, 'block': [st], 'call': 'randomize'}
                cases.append({'prog': pr, 'X': [{'x': v} for v in xm], 'bound': 1, 'oracles': oracles,
                              'core': False, 'cap': 400})
    return cases


# ------------------------------------------------------------------ truth table

def tt_statements(tier):
    out = []
    pairs = [(U2, U3), (U3, S3), (S2, S3), (S3, U2)] if tier == 'quick' else \
        [(a, b) for a in (U2, U3, S2, S3, U1, S1) for b in (U2, U3, S2, S3)]
    for tp, tq in pairs:
        sts = gen.single_statements(tp, tq, False, tier)
        out.append((tp, tq, sts))
    return out


def tt_job(job):
    """Every assignment of (p, q) for a chunk of statements, all fields
    non-random (variant 0: declared non-random; variant 1: declared random
    with rand_mode off).  A constraint over constants solves iff it is true."""
    tp, tq, sts, variant = job
    types = {'p': (tp[1], tp[0] == 'int'), 'q': (tq[1], tq[0] == 'int')}
    cnt = {"entries": 0, "agree": 0, "ambiguous": 0, "exc": 0, "programs": 0, "nontrivial": 0}
    viol = []
    for st in sts:
        rnd = variant == 1
        fields = [fld('p', tp, rnd=rnd), fld('q', tq, rnd=rnd)]
        pr = {'fields': fields, 'block': [st], 'call': 'randomize'}
        try:
            cls = P.mkclass(pr)
            o = cls()
            if variant == 1:
                with vsc.raw_mode():
                    o.p.rand_mode = False
                    o.q.rand_mode = False
        except Exception as e:
            viol.append({"subcheck": "tt_construct", "case": {"prog": pr, "variant": variant},
                         "observed": [type(e).__name__, str(e)[:100]], "expected": "constructs",
                         "what": "class construction raised %s %s" % (type(e).__name__, str(e)[:100])})
            continue
        cnt["programs"] += 1
        seen = set()
        for pv in ref.dom(*types['p']):
            for qv in ref.dom(*types['q']):
                o.p = pv
                o.q = qv
                out = common.outcome(o.randomize)
                cnt["entries"] += 1
                vals = {'p': pv, 'q': qv}
                t = ref.stmt_truth(st, types, vals)
                after = (int(o.p), int(o.q))
                if after != (pv, qv) and len(viol) < 8:
                    viol.append({"subcheck": "tt_frame", "case": {"prog": pr, "variant": variant, "vals": vals},
                                 "observed": list(after), "expected": [pv, qv],
                                 "what": "non-random fields changed from %r to %r" % ((pv, qv), after)})
                if t is None:
                    cnt["ambiguous"] += 1
                    continue
                seen.add(t)
                if out[0] == 'exc':
                    cnt["exc"] += 1
                    if len(viol) < 8:
                        viol.append({"subcheck": "tt_exception", "case": {"prog": pr, "variant": variant, "vals": vals},
                                     "observed": list(out), "expected": "ok" if t else "SolveFailure",
                                     "what": "constraint over constants %r: call raised %s (%s); statement is %s" % (
                                         vals, out[1], out[2], t)})
                    continue
                got = out[0] == 'ok'
                if got == t:
                    cnt["agree"] += 1
                elif len(viol) < 8:
                    viol.append({"subcheck": "tt_lowering", "case": {"prog": pr, "variant": variant, "vals": vals},
                                 "observed": out[0], "expected": "ok" if t else "solvefail",
                                 "what": "statement %r at %r is %s under the documented meaning but the call %s" % (
                                     st, vals, t, "returned" if got else "raised SolveFailure")})
        if len(seen) == 2:
            cnt["nontrivial"] += 1
    return {"cnt": cnt, "viol": viol}


def tt_jobs(tier):
    jobs = []
    for tp, tq, sts in tt_statements(tier):
        for variant in ((0, 1) if tier != 'quick' else (0,)):
            for i in range(0, len(sts), 40):
                jobs.append((tp, tq, sts[i:i + 40], variant))
        if tier == 'quick':
            # rand_mode-off variant on a slice
            jobs.append((tp, tq, sts[:120], 1))
    return jobs

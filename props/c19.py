"""C19 - wildcard bins match exactly the values that agree with the pattern.

Every (value, mask) pair below 2^w on a w-bit coverpoint (w = 5 quick, 8
thorough) and every pattern string of up to 3 digits in the three bases with
x / ? / _ at any position, as single wildcard bins (one and two patterns per
bin) and as wildcard bin arrays (no count and counts 1..3), x EVERY sample
value of the coverpoint's type.  Oracle from the statement:
  single bin hit  <=>  (v & mask) == (value & mask) for some pattern;
  array = one bin per matching value of the coverpoint's type, ascending,
          partitioned like an ordinary bin array when a count is given.
"""
import itertools

from mc import common, cov
from mc.common import vsc

PID = "C19"


def str2vm(s):
    base = {'x': 4, 'o': 3, 'b': 1}[s[1].lower()]
    v = m = 0
    for c in s[2:]:
        if c == '_':
            continue
        v <<= base
        m <<= base
        if c not in 'xX?':
            m |= (1 << base) - 1
            v |= int(c, 1 << base)
    return v, m


def matching(pats, w):
    return [x for x in range(1 << w) if any((x & m) == (v & m) for v, m in pats)]


def mk_cg(w, pats_args, counts):
    """one covergroup: cp_s = single wildcard bin; cp_a<k> = arrays"""
    @vsc.covergroup
    class WCG(object):
        def __init__(self):
            self.with_sample(dict(v=vsc.bit_t(w)))
            self.cp_s = vsc.coverpoint(self.v, bins=dict(s=vsc.wildcard_bin(*pats_args)))
            for k, c in enumerate(counts):
                setattr(self, "cp_a%d" % k, vsc.coverpoint(self.v, bins=dict(
                    a=vsc.wildcard_bin_array([] if c is None else [c], *pats_args))))
    return WCG


def run_case(case):
    from vsc.impl.coverage_registry import CoverageRegistry
    w = case["w"]
    cnt = {"executions": 0, "transitions": 0, "states": 0, "nontrivial": 0, "patterns": 0}
    viol = []
    for pats_args in case["pats"]:
        pats = [(str2vm(p) if isinstance(p, str) else tuple(p)) for p in pats_args]
        args = [p if isinstance(p, str) else tuple(p) for p in pats_args]
        exp_vals = matching(pats, w)
        counts = case["counts"] if exp_vals else []
        cnt["patterns"] += 1
        if 0 < len(exp_vals) < (1 << w):
            cnt["nontrivial"] += 1

        def bad(sub, what, obs, exp):
            v = {"subcheck": sub, "case": {"w": w, "pats": [list(a) if isinstance(a, tuple) else a for a in args]},
                 "observed": obs, "expected": exp,
                 "what": "wildcard pattern(s) %r on a %d-bit coverpoint: %s" % (args, w, what)}
            v["finding"] = classify(v)
            # the cap is per kind (known finding / not), so attributed cases can never crowd out a new violation
            same = [x for x in viol if (x.get("finding") is None) == (v["finding"] is None)]
            if len(same) < 6:
                viol.append(v)
        CoverageRegistry.clear()
        try:
            cg = mk_cg(w, args, counts)()
        except Exception as e:
            bad("construction", "building raised %s %s" % (type(e).__name__, str(e)[:80]), [type(e).__name__], "builds")
            continue
        cps = cg.get_model().coverpoint_l
        ms = cps[0]
        # arrays: structure
        exp_parts = []
        for k, c in enumerate(counts):
            ma = cps[1 + k]
            parts = cov.partition(exp_vals, c)
            exp_parts.append(parts)
            if ma.get_n_bins() != len(parts):
                bad("array_bin_count", "array with count %r creates %d bins, the statement gives %d (matching values %r)" % (
                    c, ma.get_n_bins(), len(parts), exp_vals[:16]), {"count": c, "n_bins": ma.get_n_bins()}, len(parts))
        prev_s = 0
        for x in range(1 << w):
            cg.sample(x)
            cnt["executions"] += 1
            hs = ms.get_bin_hits(0)
            hit = hs - prev_s
            prev_s = hs
            exp_hit = 1 if x in exp_vals else 0
            if hit != exp_hit:
                bad("single_bin", "sample %d %s the single wildcard bin, but it %s the pattern on the non-wildcard bits" % (
                    x, "hit" if hit else "missed", "agrees with" if exp_hit else "differs from"), hit, exp_hit)
        cnt["transitions"] += (1 << w) * (1 + len(counts))
        for k, c in enumerate(counts):
            ma = cps[1 + k]
            parts = exp_parts[k]
            if ma.get_n_bins() != len(parts):
                continue
            got = [ma.get_bin_hits(i) for i in range(ma.get_n_bins())]
            exp = [len(p) for p in parts]
            if got != exp:
                bad("array_hits", "array with count %r: after sampling every value once the bins hold %r, the statement gives %r "
                    "(bins = %r)" % (c, got, exp, parts[:8]), {"count": c, "hits": got}, exp)
        cnt["states"] += 1
    CoverageRegistry.clear()
    return {"cnt": cnt, "viol": viol}


def classify(v):
    """open finding C19-array-top-wildcard-bits.
    selector: wildcard bin ARRAY with a pattern whose mask leaves bits above its highest set bit (within the
    coverpoint width) as wildcards.
    predicted deviation (exact): each pattern is expanded only over the values below 2^bitlen(mask); the bins
    are the partition of the union of those values.  A violation is attributed to the finding only if the
    observed bin count / hit vector equals that prediction."""
    if v["subcheck"] not in ("array_bin_count", "array_hits"):
        return None
    c = v["case"]
    w = c["w"]
    pats = [(str2vm(p) if isinstance(p, str) else tuple(p)) for p in c["pats"]]
    if not any(m.bit_length() < w for _, m in pats):
        return None
    pred_vals = set()
    for val, m in pats:
        lim = 1 << m.bit_length()
        pred_vals.update(x for x in range(lim) if (x & m) == (val & m))
    obs = v["observed"]
    parts = cov.partition(pred_vals, obs.get("count"))
    if v["subcheck"] == "array_bin_count":
        return "C19-array-top-wildcard-bits" if obs["n_bins"] == len(parts) else None
    # after sampling every value of the type once, predicted bin i holds one hit per value it contains
    return "C19-array-top-wildcard-bits" if obs["hits"] == [len(p) for p in parts] else None


def cases_for(tier):
    w = 6 if tier == "quick" else 8
    cases = []
    pairs = [(v, m) for v in range(1 << w) for m in range(1 << w)]
    if tier != "quick":
        # value bits outside the mask are don't-care: keep all masks, values = value&mask variants + a few dirty values
        pairs = [(v, m) for m in range(1 << w) for v in range(1 << w) if (v & ~m) == 0 or (v & ~m) == (~m & 0xFF) or v % 37 == 0]
    for i in range(0, len(pairs), 64):
        cases.append({"w": w, "pats": [[list(p)] for p in pairs[i:i + 64]], "counts": [None, 1, 2, 3]})
    # strings
    strs = []
    for base, digs in (("0b", "01x?X"), ("0o", "073x?X"), ("0x", "0fax?X")):
        for n in (1, 2, 3):
            for t in itertools.product(digs, repeat=n):
                s = base + "".join(t)
                v, m = str2vm(s)
                if m < (1 << w) and (v | m) < (1 << w):
                    strs.append(s)
        strs.append(base + ("1_x" if base == "0b" else "1_x"))
    strs += ["0bx1x0", "0b1_0x1", "0B1X", "0X1?", "0O1x"]
    strs = [s for s in dict.fromkeys(strs) if (str2vm(s)[0] | str2vm(s)[1]) < (1 << w)]
    for i in range(0, len(strs), 32):
        cases.append({"w": w, "pats": [[s] for s in strs[i:i + 32]], "counts": [None, 2]})
    # two patterns per bin
    two = []
    menu = [(1, 1), (0, 1), (2, 6), (4, 4), (0, 0x18), (3, 3), (8, 0xC), (5, 7)] + ["0b1x0", "0x1?" if w >= 8 else "0o1x", "0bx1"]
    for a, b in itertools.combinations(menu, 2):
        two.append([a if isinstance(a, str) else list(a), b if isinstance(b, str) else list(b)])
    for i in range(0, len(two), 16):
        cases.append({"w": w, "pats": two[i:i + 16], "counts": [None, 2]})
    # three patterns per array: nested / chained overlaps of the expanded value ranges
    three = [["0b1xxx", "0b101x", "0b110x"], ["0b1x0x", "0b1xxx", "0b100x"], [[8, 8], [10, 14], [12, 12]], ["0b1xxx", "0b1x1x", "0bx111"],
             [[0, 48], [1, 49], [3, 51]], ["0b10xx", "0b100x", "0b1000"], ["0b0xxx", "0b001x", "0b01xx"], [[8, 56], [9, 57], [10, 58]]]
    three = [t for t in three if all(((str2vm(p) if isinstance(p, str) else tuple(p))[0] | (str2vm(p) if isinstance(p, str) else tuple(p))[1]) < (1 << w) for p in t)]
    cases.append({"w": w, "pats": three, "counts": [None, 2, 3]})
    return cases


def run(res, only=None):
    cases = common.rotate(cases_for(res.tier), res.seed)
    out = common.pmap(run_case, cases, chunk=1)
    nontriv = 0
    for c, r in common.good(cases, out, res):
        cnt = r["cnt"]
        res.add("traces_validated_against_impl", cnt["executions"])
        res.add("transitions", cnt["transitions"])
        res.add("states", cnt["states"])
        res.add("evaluations", cnt["executions"])
        nontriv += cnt["nontrivial"]
        res.subcount("wildcard", "patterns", cnt["patterns"])
        for v in r["viol"]:
            v["finding"] = classify(v)
            res.violation(v)
    res.cov["distinct_nontrivial"] = nontriv
    res.cov["rule"] = ("one case = one pattern set with every value of the coverpoint's type sampled; non-trivial if it matches some "
                       "but not all values")
    res.cov["exhaustive"] = True
    res.cov["bounds"] = {"width": 6 if res.tier == "quick" else 8}
    res.sample({"w": cases[0]["w"], "pattern": cases[0]["pats"][0]})
    res.sample({"pattern": "0bx1x0", "matching_values_of_a_5_bit_type": matching([str2vm("0bx1x0")], 5)})


def replay(rec):
    c = rec["case"]
    r = run_case({"w": c["w"], "pats": [c["pats"]], "counts": [None, 1, 2, 3]})
    bad = [v for v in r["viol"] if v["subcheck"] == rec["subcheck"]]
    return (not bad), (bad[0]["what"] if bad else "matches the statement")

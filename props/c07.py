"""C07 - enforced blocks = most-derived, enabled, of this very instance.

Explicit-state BFS over histories of  {toggle a block of an instance, create a
further instance, randomize a root}  on a fixed class hierarchy
(Base{c1: a<2, c1x: b<2 - a block whose name extends another block's name}; Derived overrides c1: a>1; a holder with a random
Derived sub-object; a holder with a rand_list_t of two Derived).  Every
randomize step is explored over every environment-answer sequence with at most
one non-default answer; the reachable value set of every field of every
instance under the root must EQUAL the set allowed by the enabled most-derived
blocks of that very instance (all constraints are per field, so per-field
equality is exact), and every other instance must be untouched.
"""
from mc import common, bfs
from mc.common import vsc, Script, SRandState, explore

PID = "C07"


def mk_classes():
    @vsc.randobj
    class Base(object):
        def __init__(self):
            self.a = vsc.rand_bit_t(2)
            self.b = vsc.rand_bit_t(2)

        @vsc.constraint
        def c1(self):
            self.a < 2

        # a block given by assignment: the attribute name differs from the body's function name
        def _body_of_c1x(self):
            self.b < 2
        c1x = vsc.constraint(_body_of_c1x)

    @vsc.randobj
    class Derived(Base):
        def __init__(self):
            super().__init__()

        @vsc.constraint
        def c1(self):
            self.a > 1

    @vsc.randobj
    class Nest(object):
        def __init__(self):
            self.s = vsc.rand_attr(Derived())
            self.k = vsc.rand_bit_t(2)

        # the holder's own block carries the same name as a block of its sub-object
        @vsc.constraint
        def c1(self):
            self.k != 0

    @vsc.randobj
    class Lst(object):
        def __init__(self):
            self.l = vsc.rand_list_t(Derived())
            for _ in range(2):
                self.l.append(Derived())
    return Base, Derived, Nest, Lst


SLOTS = ["d0", "d1", "b0", "n0", "l0"]
ALLOWED = {  # (class kind, block, enabled) -> allowed values of the field the block constrains
    ("D", "c1"): ("a", {True: {2, 3}, False: {0, 1, 2, 3}}),
    ("B", "c1"): ("a", {True: {0, 1}, False: {0, 1, 2, 3}}),
    ("D", "c1x"): ("b", {True: {0, 1}, False: {0, 1, 2, 3}}),
    ("B", "c1x"): ("b", {True: {0, 1}, False: {0, 1, 2, 3}}),
}


class World(object):
    """real objects + reference state"""

    def __init__(self):
        self.cls = mk_classes()
        self.objs = {}      # slot -> root object
        self.ref = {}       # instance path -> {block: enabled}
        self.kind = {}      # instance path -> 'D' | 'B'
        self.holder_on = True   # block c1 of the holder n0 itself

    def instances(self, slot):
        """[(path, object)] of the randobj instances with c1/c2 under a root slot"""
        o = self.objs[slot]
        if slot in ("d0", "d1", "b0"):
            return [(slot, o)]
        if slot == "n0":
            return [("n0.s", o.s)]
        return [("l0.l[0]", o.l[0]), ("l0.l[1]", o.l[1])]

    def all_instances(self):
        out = []
        for s in SLOTS:
            if s in self.objs:
                out += self.instances(s)
        return out

    def create(self, slot):
        Base, Derived, Nest, Lst = self.cls
        o = {"d0": Derived, "d1": Derived, "b0": Base, "n0": Nest, "l0": Lst}[slot]()
        self.objs[slot] = o
        for path, inst in self.instances(slot):
            self.ref[path] = {"c1": True, "c1x": True}
            self.kind[path] = "B" if slot == "b0" else "D"

    def inst(self, path):
        for p, o in self.all_instances():
            if p == path:
                return o
        raise KeyError(path)

    def toggle(self, path, blk, en):
        if path == "n0#":
            getattr(self.objs["n0"], blk).constraint_mode(en)
            self.holder_on = en
            return
        getattr(self.inst(path), blk).constraint_mode(en)
        self.ref[path][blk] = en

    def values(self):
        out = {}
        for p, o in self.all_instances():
            out[p] = (int(o.a), int(o.b))
        if "n0" in self.objs:
            out["n0.k"] = (int(self.objs["n0"].k),)
        return out

    def randomize(self, slot, script):
        o = self.objs[slot]
        o.set_randstate(SRandState(script))
        return common.outcome(o.randomize)

    def key(self):
        """reference state + hidden fingerprint of the implementation"""
        ref = tuple(sorted((p, tuple(sorted(d.items()))) for p, d in self.ref.items())) + (("n0#", self.holder_on),)
        hidden = []
        if "n0" in self.objs:
            hm = self.objs["n0"].get_model()
            hidden.append(("n0#", tuple((c.name, bool(c.enabled)) for c in hm.constraint_model_l)))
        for p, o in self.all_instances():
            m = o.get_model()
            hidden.append((p, tuple((c.name, bool(c.enabled)) for c in m.constraint_model_l)))
        # class-level wrappers (shared by all instances of a class)
        Base, Derived, Nest, Lst = self.cls
        cl = []
        for nm, C in (("Base", Base), ("Derived", Derived)):
            for blk in ("c1", "c1x"):
                w = None
                for K in C.__mro__:
                    if blk in K.__dict__:
                        w = K.__dict__[blk]
                        break
                cl.append((nm, blk, bool(getattr(w, "enabled", True))))
        return (ref, tuple(sorted(hidden)), tuple(cl))


def apply_op(w, op, script=None):
    k = op[0]
    if k == "create":
        w.create(op[1])
    elif k == "mode":
        w.toggle(op[1], op[2], op[3])
    elif k == "rand":
        return w.randomize(op[1], script if script is not None else Script([]))
    return None


def replay_hist(hist):
    w = World()
    w.create("d0")
    for op in hist:
        apply_op(w, op)
    return w


def enabled_ops(w):
    ops = []
    for s in SLOTS:
        if s not in w.objs:
            ops.append(("create", s))
    for p, o in w.all_instances():
        for blk in ("c1", "c1x"):
            ops.append(("mode", p, blk, not w.ref[p][blk]))
            # idempotent toggle (same value again) is a distinct API call
            ops.append(("mode", p, blk, w.ref[p][blk]))
    if "n0" in w.objs:
        ops.append(("mode", "n0#", "c1", not w.holder_on))
    for s in SLOTS:
        if s in w.objs:
            ops.append(("rand", s))
    return ops


def init_key():
    return replay_hist([]).key()


def check_rand(hist, slot, bound=1):
    """explore the randomize step after hist; returns (viol, cnt)"""
    viol = []
    cnt = {"executions": 0, "rand_steps": 1, "env_transitions": 0}
    reached = {}
    holder = {}

    def run(s):
        w = replay_hist(hist)
        before = w.values()
        out = w.randomize(slot, s)
        after = w.values()
        holder["w"] = w
        return out, before, after
    st = {}
    for x in explore(run, bound=bound, cap=4000, state=st):
        out, before, after = x.obs
        cnt["executions"] += 1
        cnt["env_transitions"] += len(x.trace)
        w = holder["w"]
        under = set(p for p, _ in w.instances(slot))
        if slot == "n0":
            under.add("n0.k")
        if out[0] != "ok":
            viol.append({"subcheck": "unexpected_failure", "case": {"hist": hist, "op": ["rand", slot], "choices": x.choices},
                         "observed": list(out), "expected": "returns (every enabled-block combination is satisfiable)",
                         "what": "randomize(%s) after %r ended with %r" % (slot, hist, out)})
            continue
        for p, v in after.items():
            if p not in under:
                if v != before[p]:
                    viol.append({"subcheck": "other_instance_changed", "case": {"hist": hist, "op": ["rand", slot], "choices": x.choices},
                                 "observed": [p, list(v)], "expected": list(before[p]),
                                 "what": "randomize(%s) changed %s from %r to %r" % (slot, p, before[p], v)})
            else:
                reached.setdefault(p, set()).add(v)
    if st.get("capped"):
        cnt["capped"] = 1
        return viol, cnt
    w = holder.get("w")
    if w is None:
        return viol, cnt
    for p, _ in w.instances(slot):
        if p not in reached:
            continue
        kind = w.kind[p]
        for blk in ("c1", "c1x"):
            fld, table = ALLOWED[(kind, blk)]
            exp = table[w.ref[p][blk]]
            idx = 0 if fld == "a" else 1
            got = set(v[idx] for v in reached[p])
            if got != exp:
                extra = sorted(got - exp)
                missing = sorted(exp - got)
                sub = "disabled_or_foreign_block_enforced" if missing else "enabled_block_not_enforced"
                viol.append({"subcheck": sub, "case": {"hist": hist, "op": ["rand", slot], "choices": None},
                             "observed": sorted(got), "expected": sorted(exp),
                             "what": "after %r, randomize(%s): field %s of %s (class kind %s, block %s %s) takes values %r, "
                                     "the enabled most-derived blocks of this instance allow exactly %r" % (
                                         hist, slot, fld, p, kind, blk, "on" if w.ref[p][blk] else "off",
                                         sorted(got), sorted(exp))})
    if slot == "n0" and "n0.k" in reached:
        got = set(v[0] for v in reached["n0.k"])
        expk = {1, 2, 3} if w.holder_on else {0, 1, 2, 3}
        if got != expk:
            viol.append({"subcheck": "holder_block", "case": {"hist": hist, "op": ["rand", slot], "choices": None},
                         "observed": sorted(got), "expected": sorted(expk),
                         "what": "after %r: holder field k takes %r while the holder's own block c1 is %s: expected %r" % (
                             hist, sorted(got), "on" if w.holder_on else "off", sorted(expk))})
    return viol[:6], cnt


def expand(hist):
    w = replay_hist(hist)
    succ = []
    viol = []
    cnt = {"executions": 0, "rand_steps": 0, "env_transitions": 0, "api_ops": 0}
    for op in enabled_ops(w):
        cnt["api_ops"] += 1
        if op[0] == "rand":
            v, c = check_rand(hist, op[1])
            viol += v
            for k, n in c.items():
                cnt[k] = cnt.get(k, 0) + n
        w2 = replay_hist(hist)
        apply_op(w2, op)
        succ.append((list(op), w2.key()))
    return {"succ": succ, "viol": viol, "cnt": cnt}


# ---------------------------------------------------------------------------
# a block with a foreach over a list that grows while the block is switched off / on
# ---------------------------------------------------------------------------

def mk_fl():
    @vsc.randobj
    class FL(object):
        def __init__(self):
            self.data = vsc.rand_list_t(vsc.bit_t(2), 2)
            self.k = vsc.rand_bit_t(2)

        @vsc.constraint
        def cf(self):
            with vsc.foreach(self.data, idx=True) as i:
                self.data[i] < 2

        @vsc.constraint
        def ck(self):
            self.k != 0
    return FL


FL_OPS = ("off", "on", "append", "rand")


def fl_case(seq):
    """seq: operations on one FL object; the last one is 'rand' and is explored with <= 1 deviation,
    earlier 'rand' operations run under the default answers"""
    FL = mk_fl()
    viol = []
    cnt = {"executions": 0, "env_transitions": 0, "rand_steps": 1}

    def run(s):
        o = FL()
        en = True
        n = 2
        for k, op in enumerate(seq):
            if op == "off":
                o.cf.constraint_mode(False)
                en = False
            elif op == "on":
                o.cf.constraint_mode(True)
                en = True
            elif op == "append":
                o.data.append(3)
                n += 1
            else:
                o.set_randstate(SRandState(s if k == len(seq) - 1 else Script([])))
                out = common.outcome(o.randomize)
                if out[0] != "ok":
                    return out, en, n, None
        return out, en, n, [int(x) for x in o.data]
    reached = set()
    st = {}
    en = n = None
    for x in explore(run, bound=1, cap=3000, state=st):
        out, en, n, data = x.obs
        cnt["executions"] += 1
        cnt["env_transitions"] += len(x.trace)
        if out[0] != "ok":
            viol.append({"subcheck": "unexpected_failure", "case": {"fl_seq": list(seq), "choices": x.choices}, "observed": list(out),
                         "expected": "returns", "what": "foreach block, operations %r: a randomize ended with %r" % (list(seq), out)})
            continue
        if len(data) != n:
            viol.append({"subcheck": "list_length", "case": {"fl_seq": list(seq), "choices": x.choices}, "observed": len(data), "expected": n,
                         "what": "operations %r: list has %d elements, expected %d" % (list(seq), len(data), n)})
        if en and any(v >= 2 for v in data):
            viol.append({"subcheck": "enabled_block_not_enforced", "case": {"fl_seq": list(seq), "choices": x.choices}, "observed": data,
                         "expected": "every element < 2", "what": "operations %r: block cf is on but the list reads %r" % (list(seq), data)})
        for i, v in enumerate(data):
            reached.add((i, v))
    if not st.get("capped") and not viol and en is False and n is not None:
        for i in range(n):
            got = set(v for j, v in reached if j == i)
            if got != {0, 1, 2, 3}:
                viol.append({"subcheck": "disabled_or_foreign_block_enforced", "case": {"fl_seq": list(seq), "choices": None},
                             "observed": sorted(got), "expected": [0, 1, 2, 3],
                             "what": "operations %r: block cf is off but element %d only takes %r" % (list(seq), i, sorted(got))})
    return {"viol": viol[:4], "cnt": cnt, "states": len(reached)}


def fl_sequences(tier):
    import itertools
    out = []
    for n in range(0, 5 if tier == "quick" else 6):
        for pre in itertools.product(FL_OPS, repeat=n):
            out.append(tuple(pre) + ("rand",))
    return out


def classify(v):
    return None


def run(res, only=None):
    depth = 5 if res.tier == "quick" else 6
    stats, viols, cnts = bfs.search(expand, init_key(), depth, seed=res.seed,
                                    max_states=(20000 if res.tier == "quick" else 200000))
    res.cov["states"] = stats["states"]
    res.cov["transitions"] = stats["transitions"] + cnts.get("env_transitions", 0)
    res.cov["traces_validated_against_impl"] = cnts.get("executions", 0) + stats["transitions"]
    res.cov["evaluations"] = cnts.get("executions", 0)
    res.cov["distinct_nontrivial"] = stats["states"]
    res.cov["rule"] = ("a state = (set of created instances, per-instance enabled map, hidden fingerprint: per-instance block "
                       "models' enabled flags + class-level wrapper flags); all states are distinct by construction and each "
                       "is non-trivial in that at least one block differs or one instance is added w.r.t. its parent")
    res.cov["bfs"] = stats
    res.cov["randomize_steps_explored"] = cnts.get("rand_steps", 0)
    res.cov["exhaustive"] = not stats["capped"]
    res.cov["bounds"] = {"depth": depth, "deviation_bound_per_randomize": 1, "instances": SLOTS}
    res.sample({"history": [["create", "d1"], ["mode", "d0", "c1", False], ["rand", "d1"]]})
    res.sample({"history": [["create", "l0"], ["mode", "l0.l[1]", "c1x", False], ["rand", "l0"]]})
    res.assumptions.append("field values are not part of the state key: no later operation reads them before overwriting them")
    for v in viols:
        v["finding"] = classify(v)
        res.violation(v)
    seqs = common.rotate(fl_sequences(res.tier), res.seed)
    fout = common.pmap(fl_case, seqs)
    for sq, r in common.good(seqs, fout, res):
        res.add("traces_validated_against_impl", r["cnt"]["executions"])
        res.add("evaluations", r["cnt"]["executions"])
        res.add("transitions", r["cnt"]["env_transitions"])
        res.add("states", r["states"])
        res.subcount("foreach_block", "operation_sequences")
        for v in r["viol"]:
            v["finding"] = classify(v)
            res.violation(v)
    res.cov["bounds"]["foreach_block_sequences"] = "all sequences of {off,on,append,rand} up to length %d followed by rand" % (4 if res.tier == "quick" else 5)


def replay(rec):
    c = rec["case"]
    if c.get("fl_seq"):
        r = fl_case(tuple(c["fl_seq"]))
        bad = [x for x in r["viol"] if x["subcheck"] == rec["subcheck"]]
        return (not bad), (bad[0]["what"] if bad else "holds")
    hist = [tuple(op) for op in c["hist"]]
    v, cnt = check_rand([list(o) for o in hist], c["op"][1])
    bad = [x for x in v if x["subcheck"] == rec["subcheck"]]
    return (not bad), (bad[0]["what"] if bad else "reachable values equal the enabled blocks' solution set")

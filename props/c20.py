"""C20 - solve_order decouples the earlier variable's distribution.

Every program of a small grammar with ordering directives is explored over the
COMPLETE tree of environment answers; the exact outcome distribution (Fractions)
decides three clauses:
  (i)   support == reference solution set (constraints hold, satisfiability is
        unchanged by the directive, no dead end: any exception is a violation);
  (ii)  if a's feasible set F_a equals its inferred range D_a, P(a=v) is the
        same Fraction for every v in F_a;
  (iii) relation over pairs of programs: equal (type of a, F_a, D_a) => equal
        exact marginal of a, whatever the b-side looks like.
"""
import itertools
from fractions import Fraction

from mc import common, sweep, ref, gen, prog as P
from mc.common import explore
from mc.gen import U1, U2, U3, fld
from props.c01 import _detuple

PID = "C20"
A_, B_, C_ = ('f', 'a'), ('f', 'b'), ('f', 'c')


def L(v):
    return ('lit', v)


def E(e):
    return ('expr', e)


def blocks(ta, tb):
    bmax = gen.tmax(tb)
    amax = gen.tmax(ta)
    out = [
        [('if', ('bin', '==', A_, L(0)), [E(('bin', '==', B_, L(bmax)))], [E(('bin', '!=', B_, L(bmax)))])],
        [E(('bin', '<', B_, A_))],
        [E(('bin', '<=', B_, A_))],
        [E(('bin', '!=', A_, L(0)))],
        [E(('bin', '!=', A_, L(0))), E(('bin', '!=', B_, L(1)))],
        [('implies', ('bin', '==', A_, L(1)), [E(('in', B_, [0, 1]))])],
        [('implies', ('bin', '==', A_, L(amax)), [E(('bin', '==', B_, L(0)))])],
        [E(('bin', '==', ('bin', '+', A_, B_), L(amax)))],
        [E(('bin', '|', ('bin', '!=', A_, L(1)), ('bin', '>', B_, L(bmax))))],          # a == 1 infeasible through b
        [E(('bin', '|', ('bin', '!=', A_, L(0)), ('bin', '==', B_, L(2))))],
        [E(('bin', '<', A_, L(amax))), E(('bin', '<', B_, A_))],
        [E(('bin', '>', A_, L(0))), ('implies', ('bin', '==', A_, L(1)), [E(('bin', '==', B_, L(1)))])],
        [E(('bin', '<', A_, B_))],
        [E(('bin', '!=', A_, B_))],
        [],
        [E(('bin', '>', B_, L(0)))],
    ]
    return out


def run_case(case):
    prog = case['prog']
    X = {}
    cnt = {"executions": 0, "transitions": 0, "states": 0, "nontrivial": 0, "capped": 0}
    viol = []
    rn = sweep.rand_names(prog)
    R = sweep.Runner(prog)

    def bad(sub, what, obs, exp, choices=None):
        if len(viol) < 4:
            viol.append({"subcheck": sub, "case": {"prog": prog, "X": X, "choices": choices}, "observed": obs,
                         "expected": exp, "what": what})
    sols, amb = sweep.solve_ref(prog, X, rn)
    if amb:
        return {"cnt": cnt, "viol": viol, "key": None}
    st = {}
    dist = {}
    total = Fraction(0)
    Da = None
    for x in explore(lambda s: R.execute(X, s, capture=True), bound=None, cap=case.get('cap', 30000), state=st):
        out, vals, mism, bounds = x.obs
        cnt["executions"] += 1
        cnt["transitions"] += len(x.trace) + 1
        if bounds is not None and Da is None:
            for k, (rl, nm) in bounds.items():
                if nm == 'a':
                    Da = rl
        if out[0] == 'ok':
            key = tuple(vals[n] for n in rn)
            if key not in set(sols):
                bad("not_a_solution", "returned %r which violates the constraints" % (dict(zip(rn, key)),),
                    list(key), "a solution", x.choices)
        else:
            key = (out[0],) + tuple(out[1:])
            if sols:
                bad("dead_end", "satisfiable (e.g. %r) but the call ended with %r" % (sols[0], out), list(out), "returns", x.choices)
            elif out[0] != 'solvefail':
                bad("wrong_exception", "unsatisfiable but the call ended with %r" % (out,), list(out), "SolveFailure", x.choices)
        dist[key] = dist.get(key, Fraction(0)) + x.prob
        total += x.prob
    if st.get("capped") or st.get("wide"):
        cnt["capped"] += 1
        return {"cnt": cnt, "viol": viol, "key": None}
    if total != 1:
        raise common.HarnessError("probability mass %s != 1" % total)
    cnt["states"] = len(dist)
    support = set(k for k in dist if k and not isinstance(k[0], str))
    missing = sorted(set(sols) - support)
    if missing:
        bad("solution_unreachable", "solution(s) %r are produced by no answer sequence (support %r)" % (missing[:6], sorted(support)[:12]),
            sorted(map(list, support))[:16], sorted(map(list, sols))[:16])
    if not sols:
        return {"cnt": cnt, "viol": viol, "key": None}
    ai = rn.index('a')
    Fa = sorted(set(t[ai] for t in sols))
    marg = {}
    for k, p in dist.items():
        if k and not isinstance(k[0], str):
            marg[k[ai]] = marg.get(k[ai], Fraction(0)) + p
    comp = {}
    for t in sols:
        comp[t[ai]] = comp.get(t[ai], 0) + 1
    if len(set(comp.values())) > 1:
        cnt["nontrivial"] = 1          # companion counts differ between a-values
    ordered = case.get('ordered', True)
    key = None
    if case.get('group_kind') == 'a>b>c' and 'b' in rn:
        # chain: the joint distribution of the two earlier variables must not depend on the c-side
        bi = rn.index('b')
        marg = {}
        for k, p in dist.items():
            if k and not isinstance(k[0], str):
                marg[(k[ai], k[bi])] = marg.get((k[ai], k[bi]), Fraction(0)) + p
        Fab = sorted(set((t[ai], t[bi]) for t in sols))
        Db = None
        ta = [f for f in prog['fields'] if f[0] == 'a'][0]
        return {"cnt": cnt, "viol": viol, "key": [ta[1], ta[2], Fab, Da, 'chain-joint'],
                "marg": {str(k): str(v) for k, v in sorted(marg.items())}, "prog": prog}
    if ordered and Da is not None:
        Dvals = sorted(v for lo, hi in Da for v in range(lo, hi + 1))
        if Dvals == Fa and len(set(marg.values())) > 1:
            bad("not_uniform", "F_a == D_a == %r but the marginal of a is %s" % (Fa, {k: str(v) for k, v in sorted(marg.items())}),
                {str(k): str(v) for k, v in marg.items()}, "uniform over %r" % (Fa,))
        ta = [f for f in prog['fields'] if f[0] == 'a'][0]
        key = [ta[1], ta[2], Fa, Da, case.get('group_kind', 'single')]
        if case.get('group_kind') == 'ab|c':
            # both earlier variables: the joint (a,b) marginal is what must not depend on c
            bi = rn.index('b')
            mj = {}
            for k, p in dist.items():
                if k and not isinstance(k[0], str):
                    mj[(k[ai], k[bi])] = mj.get((k[ai], k[bi]), Fraction(0)) + p
            marg = mj
            if len(set(mj.values())) > 1 and len(mj) == 16:
                bad("not_uniform", "a and b are both ordered before c and unconstrained among themselves, but their joint "
                    "distribution is %s" % ({str(k): str(v) for k, v in sorted(mj.items())},), {str(k): str(v) for k, v in mj.items()},
                    "uniform over the 16 pairs")
    return {"cnt": cnt, "viol": viol, "key": key,
            "marg": {str(k): str(v) for k, v in sorted(marg.items())}, "prog": prog}


def cases_for(tier):
    cases = []
    tys = [(U2, U2), (U1, U2), (U2, U3)] if tier == 'quick' else [(U2, U2), (U1, U2), (U2, U3), (U1, U3), (U3, U2)]
    for ta, tb in tys:
        fields = [fld('a', ta), fld('b', tb)]
        for blk in blocks(ta, tb):
            so = ('solve_order', 'a', 'b')
            cases.append({'prog': {'fields': fields, 'block': [so] + blk, 'call': 'randomize'}})
            # directive stated after the constraints
            cases.append({'prog': {'fields': fields, 'block': blk + [so], 'call': 'randomize'}})
            # list form
            cases.append({'prog': {'fields': fields, 'block': [('solve_order', ['a'], ['b'])] + blk, 'call': 'randomize'}})
    # three fields: a before [b, c]; chain a -> b -> c
    for ta in ([U2] if tier == 'quick' else [U2, U1]):
        fields = [fld('a', ta), fld('b', U2), fld('c', U2)]
        amax = gen.tmax(ta)
        blks = [
            [E(('bin', '<', B_, A_)), E(('bin', '<=', C_, B_))],
            [('if', ('bin', '==', A_, L(0)), [E(('bin', '==', B_, L(3))), E(('bin', '==', C_, L(0)))], [E(('bin', '!=', B_, C_))])],
            [E(('bin', '!=', A_, L(0))), E(('bin', '==', ('bin', '+', B_, C_), A_))],
            [E(('bin', '<', A_, B_)), E(('bin', '<', B_, C_))],
        ]
        for blk in blks:
            cases.append({'prog': {'fields': fields, 'block': [('solve_order', ['a'], ['b', 'c'])] + blk, 'call': 'randomize'},
                          'group_kind': 'a|bc'})
            cases.append({'prog': {'fields': fields, 'block': [('solve_order', 'a', 'b'), ('solve_order', 'b', 'c')] + blk,
                                   'call': 'randomize'}, 'group_kind': 'a>b>c'})
            cases.append({'prog': {'fields': fields, 'block': [('solve_order', 'a', 'b'), ('solve_order', 'a', 'c')] + blk,
                                   'call': 'randomize'}, 'group_kind': 'a|bc'})
    # the ordered group is not the last rand set: an independent field z with its own block created later
    for ta, tb in [(U2, U2), (U1, U2)]:
        fields = [fld('a', ta), fld('b', tb), fld('z', U2)]
        for blk in blocks(ta, tb)[:8]:
            cases.append({'prog': {'fields': fields, 'block': [('solve_order', 'a', 'b')] + blk,
                                   'block2': [E(('bin', '<', ('f', 'z'), L(3)))], 'call': 'randomize'}})
            cases.append({'prog': {'fields': fields, 'block': [E(('bin', '!=', ('f', 'z'), L(1)))],
                                   'block2': [('solve_order', 'a', 'b')] + blk, 'call': 'randomize'}})
    # one after-field with two before-fields (list form and two directives); both earlier variables
    # must be uniform whatever the c-side looks like
    fields = [fld('a', U2), fld('b', U2), fld('c', U2)]
    cside = [[E(('bin', '!=', C_, B_))], [E(('bin', '>=', C_, B_))], [E(('bin', '<=', C_, A_))], [E(('bin', '==', C_, ('bin', '&', A_, B_)))], []]
    for cs in cside:
        cases.append({'prog': {'fields': fields, 'block': [('solve_order', ['a', 'b'], 'c')] + cs, 'call': 'randomize'}, 'group_kind': 'ab|c'})
        cases.append({'prog': {'fields': fields, 'block': [('solve_order', 'a', 'c'), ('solve_order', 'b', 'c')] + cs, 'call': 'randomize'},
                      'group_kind': 'ab|c'})
    # chains a -> b -> c with the same (a,b) feasible set and different numbers of c companions
    for ab in ([E(('bin', '<=', B_, A_))], [E(('bin', '!=', B_, A_))], []):
        for cs in cside[:3] + [[E(('bin', '==', C_, B_))], []]:
            if cs and 'a' in repr(cs):
                continue
            cases.append({'prog': {'fields': fields, 'block': [('solve_order', 'a', 'b'), ('solve_order', 'b', 'c')] + ab + cs,
                                   'call': 'randomize'}, 'group_kind': 'a>b>c', 'cap': 40000})
            cases.append({'prog': {'fields': fields, 'block': [('solve_order', 'a', 'b'), ('solve_order', 'b', 'c'), ('solve_order', 'a', 'c')] + ab + cs,
                                   'call': 'randomize'}, 'group_kind': 'a>b>c', 'cap': 40000})
    return cases


def classify(v):
    return None


def run(res, only=None):
    cases = common.rotate(cases_for(res.tier), res.seed)
    out = common.pmap(run_case, cases, chunk=1)
    groups = {}
    nontriv = 0
    for c, r in common.good(cases, out, res):
        cnt = r["cnt"]
        res.add("traces_validated_against_impl", cnt["executions"])
        res.add("transitions", cnt["transitions"])
        res.add("states", cnt["states"])
        res.add("evaluations", cnt["executions"])
        nontriv += cnt["nontrivial"]
        res.subcount("order", "programs")
        res.subcount("order", "capped", cnt["capped"])
        for v in r["viol"]:
            v["finding"] = classify(v)
            res.violation(v)
        if r.get("key") is not None:
            groups.setdefault(repr(r["key"]), []).append(r)
    pairs = 0
    for k, rs in sorted(groups.items()):
        base = rs[0]
        for o in rs[1:]:
            pairs += 1
            if o["marg"] != base["marg"]:
                res.violation({"subcheck": "marginal_depends_on_b", "finding": None,
                               "case": {"prog": o["prog"], "other": base["prog"], "X": {}, "choices": None},
                               "observed": o["marg"], "expected": base["marg"],
                               "what": "same (type of a, F_a, D_a) %s but marginals differ: %s vs %s (other program %r)" % (
                                   k, o["marg"], base["marg"], base["prog"]["block"])})
    res.subcount("order", "program_pairs_compared", pairs)
    res.subcount("order", "groups", len(groups))
    res.cov["distinct_nontrivial"] = nontriv
    res.cov["rule"] = ("one case = one program with ordering directives, explored over its complete answer tree; non-trivial if "
                       "the number of b-companions differs between feasible a-values")
    res.cov["exhaustive"] = True
    res.sample({"program": cases[0]["prog"]})
    if out and out[0].get("marg"):
        res.sample({"program": cases[0]["prog"]["block"], "exact_marginal_of_a": out[0]["marg"]})
    res.assumptions.append("each randint() is uniform; exact Fractions over the complete tree (mass sums to 1, asserted)")


def replay(rec):
    c = rec["case"]
    pr = _detuple(c["prog"])
    r = run_case({'prog': pr})
    if rec["subcheck"] == "marginal_depends_on_b":
        r2 = run_case({'prog': _detuple(c["other"])})
        ok = r.get("marg") == r2.get("marg")
        return ok, "marginals %s vs %s" % (r.get("marg"), r2.get("marg"))
    bad = [v for v in r["viol"] if v["subcheck"] == rec["subcheck"]]
    return (not bad), (bad[0]["what"] if bad else "holds")

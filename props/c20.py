"""C20 - solve_order decouples the earlier variable's distribution.

Every program of a small grammar with ordering directives is explored over the
COMPLETE tree of environment answers; the exact outcome distribution (Fractions)
decides three clauses:
  (i)   support == reference solution set (constraints hold, satisfiability is
        unchanged by the directive, no dead end: any exception is a violation);
  (ii)  if a's feasible set F_a equals its inferred range D_a, P(a=v) is the
        same Fraction for every v in F_a;
  (iii) relation over pairs of programs: equal (type of a, F_a, D_a) => equal
        exact marginal of a, whatever the b-side looks like.
"""
import itertools
from fractions import Fraction

from mc import common, sweep, ref, gen, prog as P
from mc.common import explore, vsc
from mc.gen import U1, U2, U3, fld
from props.c01 import _detuple

PID = "C20"
A_, B_, C_ = ('f', 'a'), ('f', 'b'), ('f', 'c')


def L(v):
    return ('lit', v)


def E(e):
    return ('expr', e)


def blocks(ta, tb):
    bmax = gen.tmax(tb)
    amax = gen.tmax(ta)
    out = [
        [('if', ('bin', '==', A_, L(0)), [E(('bin', '==', B_, L(bmax)))], [E(('bin', '!=', B_, L(bmax)))])],
        [E(('bin', '<', B_, A_))],
        [E(('bin', '<=', B_, A_))],
        [E(('bin', '!=', A_, L(0)))],
        [E(('bin', '!=', A_, L(0))), E(('bin', '!=', B_, L(1)))],
        [('implies', ('bin', '==', A_, L(1)), [E(('in', B_, [0, 1]))])],
        [('implies', ('bin', '==', A_, L(amax)), [E(('bin', '==', B_, L(0)))])],
        [E(('bin', '==', ('bin', '+', A_, B_), L(amax)))],
        [E(('bin', '|', ('bin', '!=', A_, L(1)), ('bin', '>', B_, L(bmax))))],          # a == 1 infeasible through b
        [E(('bin', '|', ('bin', '!=', A_, L(0)), ('bin', '==', B_, L(2))))],
        [E(('bin', '<', A_, L(amax))), E(('bin', '<', B_, A_))],
        [E(('bin', '>', A_, L(0))), ('implies', ('bin', '==', A_, L(1)), [E(('bin', '==', B_, L(1)))])],
        [E(('bin', '<', A_, B_))],
        [E(('bin', '!=', A_, B_))],
        [],
        [E(('bin', '>', B_, L(0)))],
    ]
    return out


def run_case(case):
    prog = case['prog']
    X = {}
    cnt = {"executions": 0, "transitions": 0, "states": 0, "nontrivial": 0, "capped": 0}
    viol = []
    rn = sweep.rand_names(prog)
    R = sweep.Runner(prog)

    def bad(sub, what, obs, exp, choices=None):
        if len(viol) < 4:
            viol.append({"subcheck": sub, "case": {"prog": prog, "X": X, "choices": choices}, "observed": obs,
                         "expected": exp, "what": what})
    sols, amb = sweep.solve_ref(prog, X, rn)
    if amb:
        return {"cnt": cnt, "viol": viol, "key": None}
    st = {}
    dist = {}
    total = Fraction(0)
    Da = None
    for x in explore(lambda s: R.execute(X, s, capture=True), bound=None, cap=case.get('cap', 30000), state=st):
        out, vals, mism, bounds = x.obs
        cnt["executions"] += 1
        cnt["transitions"] += len(x.trace) + 1
        if bounds is not None and Da is None:
            for k, (rl, nm) in bounds.items():
                if nm == 'a':
                    Da = rl
        if out[0] == 'ok':
            key = tuple(vals[n] for n in rn)
            if key not in set(sols):
                bad("not_a_solution", "returned %r which violates the constraints" % (dict(zip(rn, key)),),
                    list(key), "a solution", x.choices)
        else:
            key = (out[0],) + tuple(out[1:])
            if sols:
                bad("dead_end", "satisfiable (e.g. %r) but the call ended with %r" % (sols[0], out), list(out), "returns", x.choices)
            elif out[0] != 'solvefail':
                bad("wrong_exception", "unsatisfiable but the call ended with %r" % (out,), list(out), "SolveFailure", x.choices)
        dist[key] = dist.get(key, Fraction(0)) + x.prob
        total += x.prob
    if st.get("capped") or st.get("wide"):
        cnt["capped"] += 1
        return {"cnt": cnt, "viol": viol, "key": None}
    if total != 1:
        raise common.HarnessError("probability mass %s != 1" % total)
    cnt["states"] = len(dist)
    support = set(k for k in dist if k and not isinstance(k[0], str))
    missing = sorted(set(sols) - support)
    if missing:
        bad("solution_unreachable", "solution(s) %r are produced by no answer sequence (support %r)" % (missing[:6], sorted(support)[:12]),
            sorted(map(list, support))[:16], sorted(map(list, sols))[:16])
    if not sols:
        return {"cnt": cnt, "viol": viol, "key": None}
    ai = rn.index('a')
    Fa = sorted(set(t[ai] for t in sols))
    marg = {}
    for k, p in dist.items():
        if k and not isinstance(k[0], str):
            marg[k[ai]] = marg.get(k[ai], Fraction(0)) + p
    comp = {}
    for t in sols:
        comp[t[ai]] = comp.get(t[ai], 0) + 1
    if len(set(comp.values())) > 1:
        cnt["nontrivial"] = 1          # companion counts differ between a-values
    ordered = case.get('ordered', True)
    key = None
    if case.get('group_kind') == 'a>b>c' and 'b' in rn:
        # chain: the joint distribution of the two earlier variables must not depend on the c-side
        bi = rn.index('b')
        marg = {}
        for k, p in dist.items():
            if k and not isinstance(k[0], str):
                marg[(k[ai], k[bi])] = marg.get((k[ai], k[bi]), Fraction(0)) + p
        Fab = sorted(set((t[ai], t[bi]) for t in sols))
        Db = None
        ta = [f for f in prog['fields'] if f[0] == 'a'][0]
        return {"cnt": cnt, "viol": viol, "key": [ta[1], ta[2], Fab, Da, 'chain-joint'],
                "marg": {str(k): str(v) for k, v in sorted(marg.items())}, "prog": prog}
    if ordered and Da is not None:
        Dvals = sorted(v for lo, hi in Da for v in range(lo, hi + 1))
        if Dvals == Fa and len(set(marg.values())) > 1:
            bad("not_uniform", "F_a == D_a == %r but the marginal of a is %s" % (Fa, {k: str(v) for k, v in sorted(marg.items())}),
                {str(k): str(v) for k, v in marg.items()}, "uniform over %r" % (Fa,))
        ta = [f for f in prog['fields'] if f[0] == 'a'][0]
        key = [ta[1], ta[2], Fa, Da, case.get('group_kind', 'single')]
        if case.get('group_kind') == 'ab|c':
            # both earlier variables: the joint (a,b) marginal is what must not depend on c
            bi = rn.index('b')
            mj = {}
            for k, p in dist.items():
                if k and not isinstance(k[0], str):
                    mj[(k[ai], k[bi])] = mj.get((k[ai], k[bi]), Fraction(0)) + p
            marg = mj
            if len(set(mj.values())) > 1 and len(mj) == 16:
                bad("not_uniform", "a and b are both ordered before c and unconstrained among themselves, but their joint "
                    "distribution is %s" % ({str(k): str(v) for k, v in sorted(mj.items())},), {str(k): str(v) for k, v in mj.items()},
                    "uniform over the 16 pairs")
    return {"cnt": cnt, "viol": viol, "key": key,
            "marg": {str(k): str(v) for k, v in sorted(marg.items())}, "prog": prog}


def cases_for(tier):
    cases = []
    tys = [(U2, U2), (U1, U2), (U2, U3)] if tier == 'quick' else [(U2, U2), (U1, U2), (U2, U3), (U1, U3), (U3, U2)]
    for ta, tb in tys:
        fields = [fld('a', ta), fld('b', tb)]
        for blk in blocks(ta, tb):
            so = ('solve_order', 'a', 'b')
            cases.append({'prog': {'fields': fields, 'block': [so] + blk, 'call': 'randomize'}})
            # directive stated after the constraints
            cases.append({'prog': {'fields': fields, 'block': blk + [so], 'call': 'randomize'}})
            # list form
            cases.append({'prog': {'fields': fields, 'block': [('solve_order', ['a'], ['b'])] + blk, 'call': 'randomize'}})
    # three fields: a before [b, c]; chain a -> b -> c
    for ta in ([U2] if tier == 'quick' else [U2, U1]):
        fields = [fld('a', ta), fld('b', U2), fld('c', U2)]
        amax = gen.tmax(ta)
        blks = [
            [E(('bin', '<', B_, A_)), E(('bin', '<=', C_, B_))],
            [('if', ('bin', '==', A_, L(0)), [E(('bin', '==', B_, L(3))), E(('bin', '==', C_, L(0)))], [E(('bin', '!=', B_, C_))])],
            [E(('bin', '!=', A_, L(0))), E(('bin', '==', ('bin', '+', B_, C_), A_))],
            [E(('bin', '<', A_, B_)), E(('bin', '<', B_, C_))],
        ]
        for blk in blks:
            cases.append({'prog': {'fields': fields, 'block': [('solve_order', ['a'], ['b', 'c'])] + blk, 'call': 'randomize'},
                          'group_kind': 'a|bc'})
            cases.append({'prog': {'fields': fields, 'block': [('solve_order', 'a', 'b'), ('solve_order', 'b', 'c')] + blk,
                                   'call': 'randomize'}, 'group_kind': 'a>b>c'})
            cases.append({'prog': {'fields': fields, 'block': [('solve_order', 'a', 'b'), ('solve_order', 'a', 'c')] + blk,
                                   'call': 'randomize'}, 'group_kind': 'a|bc'})
    # the ordered group is not the last rand set: an independent field z with its own block created later
    for ta, tb in [(U2, U2), (U1, U2)]:
        fields = [fld('a', ta), fld('b', tb), fld('z', U2)]
        for blk in blocks(ta, tb)[:8]:
            cases.append({'prog': {'fields': fields, 'block': [('solve_order', 'a', 'b')] + blk,
                                   'block2': [E(('bin', '<', ('f', 'z'), L(3)))], 'call': 'randomize'}})
            cases.append({'prog': {'fields': fields, 'block': [E(('bin', '!=', ('f', 'z'), L(1)))],
                                   'block2': [('solve_order', 'a', 'b')] + blk, 'call': 'randomize'}})
    # one after-field with two before-fields (list form and two directives); both earlier variables
    # must be uniform whatever the c-side looks like
    fields = [fld('a', U2), fld('b', U2), fld('c', U2)]
    cside = [[E(('bin', '!=', C_, B_))], [E(('bin', '>=', C_, B_))], [E(('bin', '<=', C_, A_))], [E(('bin', '==', C_, ('bin', '&', A_, B_)))], []]
    for cs in cside:
        cases.append({'prog': {'fields': fields, 'block': [('solve_order', ['a', 'b'], 'c')] + cs, 'call': 'randomize'}, 'group_kind': 'ab|c'})
        cases.append({'prog': {'fields': fields, 'block': [('solve_order', 'a', 'c'), ('solve_order', 'b', 'c')] + cs, 'call': 'randomize'},
                      'group_kind': 'ab|c'})
    # chains a -> b -> c with the same (a,b) feasible set and different numbers of c companions
    for ab in ([E(('bin', '<=', B_, A_))], [E(('bin', '!=', B_, A_))], []):
        for cs in cside[:3] + [[E(('bin', '==', C_, B_))], []]:
            if cs and 'a' in repr(cs):
                continue
            cases.append({'prog': {'fields': fields, 'block': [('solve_order', 'a', 'b'), ('solve_order', 'b', 'c')] + ab + cs,
                                   'call': 'randomize'}, 'group_kind': 'a>b>c', 'cap': 40000})
            cases.append({'prog': {'fields': fields, 'block': [('solve_order', 'a', 'b'), ('solve_order', 'b', 'c'), ('solve_order', 'a', 'c')] + ab + cs,
                                   'call': 'randomize'}, 'group_kind': 'a>b>c', 'cap': 40000})
    return cases


# ---------------------------------------------------------------------------
# direct programs: shapes the AST grammar does not have (a list on the after side, two ordered groups in one
# call, directives that change from call to call on one object).  Same oracle: complete answer tree of the
# judged call, exact Fractions.
# ---------------------------------------------------------------------------

def _mk_list_after(size, rev):
    @vsc.randobj
    class LA(object):
        def __init__(self):
            self.a = vsc.rand_bit_t(2)
            self.l = vsc.rand_list_t(vsc.bit_t(2), size)

        @vsc.constraint
        def c(self):
            if not rev:
                vsc.solve_order(self.a, self.l)
            with vsc.foreach(self.l) as it:
                it <= self.a
            if rev:
                vsc.solve_order(self.a, self.l)
    return dict(new=LA, pre=[], call=lambda o: o.randomize(), read=lambda o: (int(o.a),) + tuple(int(x) for x in o.l),
                names=['a'] + ['l%d' % i for i in range(size)], doms=[range(4)] * (1 + size),
                pred=lambda v: all(x <= v[0] for x in v[1:]), uniform=['a'])


def _mk_two_groups(split):
    @vsc.randobj
    class TG(object):
        def __init__(self):
            self.a = vsc.rand_bit_t(2)
            self.b = vsc.rand_bit_t(2)
            self.c = vsc.rand_bit_t(2)
            self.d = vsc.rand_bit_t(2)

        @vsc.constraint
        def c1(self):
            vsc.solve_order(self.a, self.b)
            self.b <= self.a
            if not split:
                vsc.solve_order(self.c, self.d)
                self.d >= self.c

        @vsc.constraint
        def c2(self):
            if split:
                vsc.solve_order(self.c, self.d)
                self.d >= self.c
    return dict(new=TG, pre=[], call=lambda o: o.randomize(), read=lambda o: (int(o.a), int(o.b), int(o.c), int(o.d)),
                names=['a', 'b', 'c', 'd'], doms=[range(4)] * 4, pred=lambda v: v[1] <= v[0] and v[3] >= v[2], uniform=['a', 'c'])


def _mk_changing(first, npre):
    """the directives of one call must not outlive it: earlier calls on the same object order other fields"""
    @vsc.randobj
    class CH(object):
        def __init__(self):
            self.a = vsc.rand_bit_t(2)
            self.b = vsc.rand_bit_t(2)
            self.c = vsc.rand_bit_t(2)

        @vsc.constraint
        def cc(self):
            self.b <= self.a
            self.c >= self.a

    def pre(o):
        with o.randomize_with() as it:
            if first == 'c,a':
                vsc.solve_order(it.c, it.a)
            elif first == 'b,a':
                vsc.solve_order(it.b, it.a)
            elif first == 'b,c':
                vsc.solve_order(it.b, it.c)

    def call(o):
        with o.randomize_with() as it:
            vsc.solve_order(it.a, it.b)
    return dict(new=CH, pre=[pre] * npre, call=call, read=lambda o: (int(o.a), int(o.b), int(o.c)), names=['a', 'b', 'c'],
                doms=[range(4)] * 3, pred=lambda v: v[1] <= v[0] and v[2] >= v[0], uniform=['a'], same_as='changing/none/0')


def _mk_in_dynamic(how):
    """the directive lives in a dynamic constraint that the call references (inline or from a static block)"""
    @vsc.randobj
    class DY(object):
        def __init__(self):
            self.a = vsc.rand_bit_t(2)
            self.b = vsc.rand_bit_t(2)
            self.c = vsc.rand_bit_t(2)

        @vsc.dynamic_constraint
        def dyn(self):
            vsc.solve_order(self.a, self.b)
            self.b <= self.a

        @vsc.constraint
        def cs(self):
            self.c != 3
            if how == 'static':
                self.dyn()

    def call(o):
        if how == 'inline':
            with o.randomize_with() as it:
                it.dyn()
        else:
            o.randomize()
    return dict(new=DY, pre=[], call=call, read=lambda o: (int(o.a), int(o.b), int(o.c)), names=['a', 'b', 'c'],
                doms=[range(4)] * 3, pred=lambda v: v[1] <= v[0] and v[2] != 3, uniform=['a'])


DIRECT = {}
for _sz in (1, 2):
    for _rev in (False, True):
        DIRECT["list_after/%d/%s" % (_sz, "rev" if _rev else "fwd")] = (_mk_list_after, (_sz, _rev))
for _sp in (False, True):
    DIRECT["two_groups/%s" % ("split" if _sp else "one_block")] = (_mk_two_groups, (_sp,))
for _h in ('inline', 'static'):
    DIRECT["in_dynamic/%s" % _h] = (_mk_in_dynamic, (_h,))
DIRECT["changing/none/0"] = (_mk_changing, (None, 0))
for _f in ('c,a', 'b,a', 'b,c'):
    for _n in (1, 2):
        DIRECT["changing/%s/%d" % (_f, _n)] = (_mk_changing, (_f, _n))


def direct_case(name):
    from mc.common import SRandState, Script
    mk, args = DIRECT[name]
    spec = mk(*args)
    cnt = {"executions": 0, "transitions": 0, "states": 0, "nontrivial": 1, "capped": 0}
    viol = []

    def bad(sub, what, obs, exp, choices=None):
        if len(viol) < 4:
            viol.append({"subcheck": sub, "case": {"direct": name, "choices": choices}, "observed": obs, "expected": exp,
                         "what": "program %s: %s" % (name, what)})
    sols = set(t for t in itertools.product(*spec['doms']) if spec['pred'](t))

    def run(s):
        o = spec['new']()
        for pc in spec['pre']:
            o.set_randstate(SRandState(Script([])))
            r = common.outcome(lambda: pc(o))
            if r[0] != 'ok':
                return r, None
        o.set_randstate(SRandState(s))
        out = common.outcome(lambda: spec['call'](o))
        return out, spec['read'](o)
    st = {}
    dist = {}
    total = Fraction(0)
    for x in explore(run, bound=None, cap=60000, state=st):
        out, vals = x.obs
        cnt["executions"] += 1
        cnt["transitions"] += len(x.trace) + 1
        if out[0] != 'ok':
            bad("dead_end", "satisfiable but a call ended with %r" % (out,), list(out), "returns", x.choices)
            key = ('exc',) + tuple(out)
        else:
            key = vals
            if vals not in sols:
                bad("not_a_solution", "returned %r which violates the constraints" % (dict(zip(spec['names'], vals)),), list(vals),
                    "a solution", x.choices)
        dist[key] = dist.get(key, Fraction(0)) + x.prob
        total += x.prob
    if st.get("capped") or st.get("wide"):
        cnt["capped"] = 1
        return {"cnt": cnt, "viol": viol, "name": name, "dist": None}
    if total != 1:
        raise common.HarnessError("probability mass %s != 1" % total)
    cnt["states"] = len(dist)
    support = set(k for k in dist if not (k and k[0] == 'exc'))
    missing = sorted(sols - support)
    if missing:
        bad("solution_unreachable", "solution(s) %r are produced by no answer sequence" % (missing[:6],), sorted(map(list, support))[:16],
            sorted(map(list, sols))[:16])
    for nm in spec['uniform']:
        i = spec['names'].index(nm)
        marg = {}
        for k, pr in dist.items():
            if not (k and k[0] == 'exc'):
                marg[k[i]] = marg.get(k[i], Fraction(0)) + pr
        if len(set(marg.values())) > 1 or set(marg) != set(t[i] for t in sols):
            bad("not_uniform", "%s is ordered first and every value of its range is feasible, but its exact marginal is %s" % (
                nm, {k: str(v) for k, v in sorted(marg.items())}), {str(k): str(v) for k, v in marg.items()}, "uniform")
    return {"cnt": cnt, "viol": viol, "name": name, "same_as": spec.get('same_as'),
            "dist": {str(k): str(v) for k, v in sorted(dist.items(), key=str)}}


def classify(v):
    return None


def run(res, only=None):
    cases = common.rotate(cases_for(res.tier), res.seed)
    out = common.pmap(run_case, cases, chunk=1)
    groups = {}
    nontriv = 0
    for c, r in common.good(cases, out, res):
        cnt = r["cnt"]
        res.add("traces_validated_against_impl", cnt["executions"])
        res.add("transitions", cnt["transitions"])
        res.add("states", cnt["states"])
        res.add("evaluations", cnt["executions"])
        nontriv += cnt["nontrivial"]
        res.subcount("order", "programs")
        res.subcount("order", "capped", cnt["capped"])
        for v in r["viol"]:
            v["finding"] = classify(v)
            res.violation(v)
        if r.get("key") is not None:
            groups.setdefault(repr(r["key"]), []).append(r)
    pairs = 0
    for k, rs in sorted(groups.items()):
        base = rs[0]
        for o in rs[1:]:
            pairs += 1
            if o["marg"] != base["marg"]:
                res.violation({"subcheck": "marginal_depends_on_b", "finding": None,
                               "case": {"prog": o["prog"], "other": base["prog"], "X": {}, "choices": None},
                               "observed": o["marg"], "expected": base["marg"],
                               "what": "same (type of a, F_a, D_a) %s but marginals differ: %s vs %s (other program %r)" % (
                                   k, o["marg"], base["marg"], base["prog"]["block"])})
    # direct programs
    dnames = common.rotate(sorted(DIRECT), res.seed)
    dout = common.pmap(direct_case, dnames, chunk=1)
    byname = {}
    for nm, r in common.good(dnames, dout, res):
        cnt = r["cnt"]
        res.add("traces_validated_against_impl", cnt["executions"])
        res.add("transitions", cnt["transitions"])
        res.add("states", cnt["states"])
        res.add("evaluations", cnt["executions"])
        nontriv += cnt["nontrivial"]
        res.subcount("direct", "programs")
        res.subcount("direct", "capped", cnt["capped"])
        for v in r["viol"]:
            v["finding"] = classify(v)
            res.violation(v)
        byname[nm] = r
    for nm, r in sorted(byname.items()):
        o = byname.get(r.get("same_as") or "")
        if o is not None and o is not r and r.get("dist") is not None and o.get("dist") is not None:
            pairs += 1
            if r["dist"] != o["dist"]:
                res.violation({"subcheck": "earlier_directive_outlives_its_call", "finding": None, "case": {"direct": nm, "choices": None},
                               "observed": r["dist"], "expected": o["dist"],
                               "what": "program %s: the exact outcome distribution of the judged call differs from the same call on a "
                                       "fresh object (%s)" % (nm, r.get("same_as"))})
    res.subcount("order", "program_pairs_compared", pairs)
    res.subcount("order", "groups", len(groups))
    res.cov["distinct_nontrivial"] = nontriv
    res.cov["rule"] = ("one case = one program with ordering directives, explored over its complete answer tree; non-trivial if "
                       "the number of b-companions differs between feasible a-values")
    res.cov["exhaustive"] = True
    res.sample({"program": cases[0]["prog"]})
    if out and out[0].get("marg"):
        res.sample({"program": cases[0]["prog"]["block"], "exact_marginal_of_a": out[0]["marg"]})
    res.assumptions.append("each randint() is uniform; exact Fractions over the complete tree (mass sums to 1, asserted)")


def replay(rec):
    c = rec["case"]
    if c.get("direct"):
        r = direct_case(c["direct"])
        if rec["subcheck"] == "earlier_directive_outlives_its_call":
            r2 = direct_case(r["same_as"])
            return r["dist"] == r2["dist"], "distributions %s" % ("equal" if r["dist"] == r2["dist"] else "differ")
        bad = [v for v in r["viol"] if v["subcheck"] == rec["subcheck"]]
        return (not bad), (bad[0]["what"] if bad else "holds")
    pr = _detuple(c["prog"])
    r = run_case({'prog': pr})
    if rec["subcheck"] == "marginal_depends_on_b":
        r2 = run_case({'prog': _detuple(c["other"])})
        ok = r.get("marg") == r2.get("marg")
        return ok, "marginals %s vs %s" % (r.get("marg"), r2.get("marg"))
    bad = [v for v in r["viol"] if v["subcheck"] == rec["subcheck"]]
    return (not bad), (bad[0]["what"] if bad else "holds")

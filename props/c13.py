"""C13 - coverage reports and saved databases equal the in-memory coverage.

The population BFS of C12 (create instances of two shapes, sample them) over
all its configurations (regular / ignore / illegal bins, arrays, crosses,
at_least, weights); at EVERY state the four representations are produced and
compared as structures  type -> items -> (bin kind, bin name, count):
    in-memory models (registry)        vsc.get_coverage_report_model()
    vsc.get_coverage_report(details)   vsc.write_coverage_db() re-read with PyUCIS
Percentages must agree with get_coverage()/get_inst_coverage(), and the state
key (hit vectors, not-yet-covered sets, registry) must be identical before and
after every reporting call.
"""
import os
import re
import tempfile

from mc import common, cov, bfs
from mc.common import vsc
from props import c12

PID = "C13"


def mem_struct(w):
    from vsc.impl.coverage_registry import CoverageRegistry
    rg = CoverageRegistry.inst()
    out = []
    # read the registry's own table (not covergroup_types(), which the reporting functions use)
    for name, lst in rg.covergroup_type_m.items():
        for t in lst:
            out.append(_cg_struct(t, [_cg_struct(i, None) for i in t.cg_inst_l]))
    return out


def _cg_struct(m, insts):
    cps = []
    for cp in m.coverpoint_l:
        cps.append((cp.name,
                    tuple((cp.get_bin_name(i), cp.get_bin_hits(i)) for i in range(cp.get_n_bins())),
                    tuple((cp.get_ignore_bin_name(i), cp.get_ignore_bin_hits(i)) for i in range(cp.get_n_ignore_bins())),
                    tuple((cp.get_illegal_bin_name(i), cp.get_illegal_bin_hits(i)) for i in range(cp.get_n_illegal_bins()))))
    crs = []
    for cr in m.cross_l:
        crs.append((cr.name, tuple((cr.get_bin_name(i), cr.get_bin_hits(i)) for i in range(cr.get_n_bins()))))
    d = {"cps": tuple(cps), "crosses": tuple(crs)}
    if insts is not None:
        d["typename"] = m.typename
        d["insts"] = sorted(insts, key=_js)
    return d


def _js(x):
    import json
    return json.dumps(x, sort_keys=True)


def report_struct(rm):
    out = []
    for cg in rm.covergroups:
        out.append(_rep_cg(cg, [_rep_cg(s, None) for s in cg.covergroups]))
    return out


def _rep_cg(cg, insts):
    cps = []
    for cp in cg.coverpoints:
        cps.append((cp.name, tuple((b.name, b.count) for b in cp.bins), tuple((b.name, b.count) for b in cp.ignore_bins),
                    tuple((b.name, b.count) for b in cp.illegal_bins)))
    crs = [(cr.name, tuple((b.name, b.count) for b in cr.bins)) for cr in cg.crosses]
    d = {"cps": tuple(cps), "crosses": tuple(crs)}
    if insts is not None:
        d["typename"] = cg.name
        d["insts"] = sorted(insts, key=_js)
    return d


LINE = re.compile(r"^(\s*)(TYPE|INST|CVP|CROSS)\s+(.*?)\s*:\s*([0-9.]+)%\s*$")
BIN = re.compile(r"^(\s*)(.*?)\s*:\s*(-?[0-9]+)\s*$")


def text_struct(txt):
    """parse the text rendering into the same structure (+ percentages)"""
    types = []
    cur_cg = None
    cur_item = None
    section = None
    pct = []
    for ln in txt.splitlines():
        if not ln.strip():
            continue
        m = LINE.match(ln)
        if m:
            kind, name, p = m.group(2), m.group(3), float(m.group(4))
            if kind == "TYPE":
                cur_cg = {"typename": name, "cps": [], "crosses": [], "insts": [], "pct": p}
                types.append(cur_cg)
                cur_top = cur_cg
            elif kind == "INST":
                cur_cg = {"cps": [], "crosses": [], "pct": p, "name": name}
                cur_top["insts"].append(cur_cg)
            elif kind == "CVP":
                cur_item = [name, [], [], [], p]
                cur_cg["cps"].append(cur_item)
            else:
                cur_item = [name, [], p]
                cur_cg["crosses"].append(cur_item)
            section = None
            continue
        s = ln.strip()
        if s in ("Bins:", "IgnoreBins:", "IllegalBins:"):
            section = s
            continue
        b = BIN.match(ln)
        if b and cur_item is not None and section:
            idx = {"Bins:": 1, "IgnoreBins:": 2, "IllegalBins:": 3}[section]
            if len(cur_item) == 3:
                cur_item[1].append((b.group(2), int(b.group(3))))
            else:
                cur_item[idx].append((b.group(2), int(b.group(3))))
            continue
        raise ValueError("unparsed report line: %r" % ln)

    def fin(cg, top):
        d = {"cps": tuple((c[0], tuple(c[1]), tuple(c[2]), tuple(c[3])) for c in cg["cps"]),
             "crosses": tuple((c[0], tuple(c[1])) for c in cg["crosses"])}
        if top:
            d["typename"] = cg["typename"]
            d["insts"] = sorted([fin(i, False) for i in cg["insts"]], key=_js)
        return d
    return [fin(t, True) for t in types], types


def norm(structs, with_ignore_in_insts=True):
    return sorted([_js(s) for s in structs])


def check_state(w, hist):
    viol = []

    def bad(sub, what, obs, exp):
        if len(viol) < 4:
            viol.append({"subcheck": sub, "case": {"cfg": w.cfgname, "hist": hist}, "observed": obs, "expected": exp,
                         "what": "config %s after %r: %s" % (w.cfgname, hist, what)})
    # the coverage getters fill the implementation's caches: query first, then take the reference key
    inst_cov = []
    for shape, cg in list(w.insts) + [("other", w.other)]:
        with common.silenced():
            inst_cov.append((cg.get_model().typename, cg.get_model().type_cg, cg.get_coverage(), cg.get_inst_coverage()))
    k0 = w.key()
    mem = mem_struct(w)
    nreps = 0
    # ---- report model
    with common.silenced():
        rm = vsc.get_coverage_report_model()
    nreps += 1
    if w.key() != k0:
        bad("report_altered_state", "get_coverage_report_model() changed the coverage state", "changed", "unchanged")
    rs = report_struct(rm)
    if norm(rs) != norm(mem):
        bad("report_model_differs", "report model %r differs from the in-memory coverage %r" % (rs, mem), norm(rs), norm(mem))
    # ---- every instance can be told apart: the names of the instances listed under one type are pairwise distinct
    for rcg in rm.covergroups:
        nms = [s.name for s in rcg.covergroups]
        if len(set(nms)) != len(nms):
            bad("instance_names_distinct", "the report lists the instances of type %s as %r" % (rcg.name, nms), nms, "pairwise distinct names")
    # ---- percentages of the report model
    from vsc.impl.coverage_registry import CoverageRegistry
    types = [t for lst in CoverageRegistry.inst().covergroup_type_m.values() for t in lst]
    if len(types) == len(rm.covergroups):
        for t, rcg in zip(types, rm.covergroups):
            exp_t = [c[2] for c in inst_cov if c[1] is t]
            if exp_t and abs(rcg.coverage - exp_t[0]) > 1e-3:
                bad("report_type_percentage", "report shows %.4f%% for type %s, get_coverage() returns %.4f" % (
                    rcg.coverage, t.name, exp_t[0]), rcg.coverage, exp_t[0])
            exp_i = sorted(round(c[3], 3) for c in inst_cov if c[1] is t)
            got_i = sorted(round(s.coverage, 3) for s in rcg.covergroups)
            if exp_i != got_i:
                bad("report_instance_percentage", "report shows instance percentages %r for type %s, get_inst_coverage() returns %r" % (
                    got_i, t.name, exp_i), got_i, exp_i)
    # ---- text rendering
    with common.silenced():
        txt = vsc.get_coverage_report(details=True)
    nreps += 1
    if w.key() != k0:
        bad("report_altered_state", "get_coverage_report() changed the coverage state", "changed", "unchanged")
    try:
        ts, raw = text_struct(txt)
        if norm(ts) != norm(mem):
            bad("text_report_differs", "text report differs from the in-memory coverage: %r vs %r" % (ts, mem), norm(ts), norm(mem))
        for t, rcg in zip(raw, rm.covergroups):
            if abs(t["pct"] - rcg.coverage) > 0.006:
                bad("text_percentage", "text shows %.2f%%, report model %.4f" % (t["pct"], rcg.coverage), t["pct"], rcg.coverage)
    except ValueError as e:
        bad("text_report_unparsable", str(e), str(e), "parsable")
    # ---- saved database
    fd, path = tempfile.mkstemp(suffix=".xml", prefix="c13_")
    os.close(fd)
    try:
        with common.silenced():
            vsc.write_coverage_db(path)
        nreps += 1
        if w.key() != k0:
            bad("report_altered_state", "write_coverage_db() changed the coverage state", "changed", "unchanged")
        from ucis.xml.xml_factory import XmlFactory
        from ucis.report.coverage_report_builder import CoverageReportBuilder
        with common.silenced():
            db = XmlFactory.read(path)
            rm2 = CoverageReportBuilder.build(db)
        xs = report_struct(rm2)
        if norm(xs) != norm(mem):
            bad("saved_db_differs", "coverage read back from the saved XML %r differs from the in-memory coverage %r" % (xs, mem),
                norm(xs), norm(mem))
    except Exception as e:
        bad("save_or_reload_failed", "write_coverage_db / reading it back raised %s %s" % (type(e).__name__, str(e)[:120]),
            [type(e).__name__], "works")
    finally:
        try:
            os.unlink(path)
        except OSError:
            pass
    return viol, nreps


def expand(cfgname, hist):
    w = c12.replay_hist(cfgname, hist)
    v0, n0 = check_state(w, hist)
    succ = []
    cnt = {"api_ops": 0, "reports": n0, "states_checked": 1}
    for op in c12.enabled_ops(w):
        cnt["api_ops"] += 1
        w2 = c12.replay_hist(cfgname, hist)
        c12.apply_op(w2, op)
        succ.append((op, w2.key()))
    return {"succ": succ, "viol": v0[:6], "cnt": cnt}


def _mk(name):
    def f(hist):
        return expand(name, hist)
    f.__name__ = "expand13_" + name
    f.__qualname__ = "expand13_" + name
    return f


EXPAND = {}
for _n in c12.world_names():
    EXPAND[_n] = _mk(_n)
    globals()["expand13_" + _n] = EXPAND[_n]


def classify(v):
    return None


def run(res, only=None):
    depth = 5 if res.tier == "quick" else 6
    allstats = {}
    tot_states = tot_trans = reports = 0
    for name in c12.world_names():
        if only and only != name:
            continue
        if c12.CONFIGS[name.split("@")[0]].get('no_c13'):
            continue      # cross weights: the PyUCIS report builder does not read a cross's weight (outside pyvsc)
        stats, viols, cnts = bfs.search(EXPAND[name], c12.replay_hist(name, []).key(), depth - (1 if "@" in name else 0), seed=res.seed,
                                        max_states=(20000 if res.tier == "quick" else 100000))
        allstats[name] = stats
        tot_states += stats["states"]
        tot_trans += stats["transitions"]
        reports += cnts.get("reports", 0)
        for v in viols:
            v["finding"] = classify(v)
            res.violation(v)
    res.cov["states"] = tot_states
    res.cov["transitions"] = tot_trans + reports
    res.cov["traces_validated_against_impl"] = reports
    res.cov["evaluations"] = reports
    res.cov["distinct_nontrivial"] = tot_states
    res.cov["rule"] = "states of the C12 population BFS; at every expanded state three reporting calls are made and compared with the in-memory models"
    res.cov["bfs"] = allstats
    res.cov["exhaustive"] = not any(s["capped"] for s in allstats.values())
    res.cov["bounds"] = {"depth": depth, "configs": list(c12.CONFIGS)}
    res.sample({"config": "ignore_iff", "history": [["sample", 0, [3]], ["sample", 0, [2]]], "representations": ["model", "text", "xml"]})
    res.assumptions.append("PyUCIS (XML writer/reader, report builder, text formatter) is part of the system under test as used by vsc")


def replay(rec):
    c = rec["case"]
    w = c12.replay_hist(c["cfg"], c["hist"])
    v, _ = check_state(w, c["hist"])
    bad = [x for x in v if x["subcheck"] == rec["subcheck"]]
    return (not bad), (bad[0]["what"] if bad else "representations agree")

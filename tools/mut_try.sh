#!/bin/bash
# usage: mut_try.sh <patch-file> <ID> [ID...]   -- applies patch to the scratch worktree /tmp/wt_self, runs the checks against it
p=$1; shift
[ -d /tmp/wt_self ] || git -C /repo worktree add -q --detach /tmp/wt_self HEAD
git -C /tmp/wt_self checkout -q -- . && git -C /tmp/wt_self checkout -q --detach $(git -C /repo rev-parse HEAD) && git -C /tmp/wt_self apply "$p" || { echo "patch failed"; exit 2; }
for id in "$@"; do
  PYVSC_SRC=/tmp/wt_self/src VERIF_MAX_VIOL=3 /verif/check $id --tier quick > /tmp/mut_try_$id.log 2>&1
  echo "$id rc=$? $(grep -c '^VIOLATION' /tmp/mut_try_$id.log) viol: $(grep -m1 'subcheck=' /tmp/mut_try_$id.log | cut -c1-260)"
done
git -C /tmp/wt_self checkout -q -- .

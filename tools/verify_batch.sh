#!/bin/bash
# usage: verify_batch.sh "<id> <patch> <demo>" ...   (runs them 3 at a time)
n=0
for spec in "$@"; do
  set -- $spec
  /verif/tools/verify_mutant.sh $1 $2 $3 4 > /tmp/vm_results/$1.out 2>&1 &
  n=$((n+1))
  if [ $((n % 3)) -eq 0 ]; then wait; fi
done
wait
cat /tmp/vm_results/*/result.json

#!/usr/bin/env python3
"""prints the per-check numbers of the evidence files as a markdown table (used for DESIGN.md 8.3)"""
import json, glob, os
rows = []
for f in sorted(glob.glob('/verif/evidence/C*.json')):
    e = json.load(open(f))
    c = e['coverage']
    rows.append("| %s | %s | %s | %s | %s | %s | %s | %.0f s |" % (
        e['property_id'], e['tier'], c.get('states', ''), c.get('transitions', ''), c.get('traces_validated_against_impl', ''),
        c.get('distinct_nontrivial', ''), sum((c.get('known_findings_matched') or {}).values()), e.get('wall_s', 0)))
print("| id | tier | states | transitions | executions of the real code | non-trivial cases | known-finding cases | wall |")
print("|---|---|---|---|---|---|---|---|")
print("\n".join(rows))

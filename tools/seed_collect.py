#!/usr/bin/env python3
"""Assemble /verif/seeded/<id>/ from agent deliverables + my verification results, and MUTATION_LOG.md.
Table rows: id, property, worktree, k, what, needs, detected_by (check/subcheck), notes"""
import json, os, shutil, sys

ROWS = [
 # wave 1
 ("C01-m1", "C01", "/tmp/wt_C01", 1, "else_if attaches new arm only one level down the chain (constraints.py else_if.__init__)",
  "a chain with three or more else_if arms and a solution in which a dropped middle arm's condition is true", "C01 constraint_violated; C02 tt_lowering", "missed by the first grammar (chains of one else_if only): chains with 2-3 else_if arms added to mc/gen.py"),
 ("C01-m2", "C01", "/tmp/wt_C01", 2, "mixed signed/unsigned binary expression extends each operand by its own signedness (expr_bin_model.py)",
  "signed field narrower than the context next to an unsigned operand, negative value", "C01 constraint_violated; C02 missed_unsat", "caught as built"),
 ("C01-m3", "C01", "/tmp/wt_C01", 3, "rand-set merge relinks only the random fields of the absorbed set (rand_info_builder.process_fieldref)",
  "statement order a>n, c<200, a<c, c>n with n non-random: the group is silently never solved", "C01 constraint_violated (multi-statement programs); C02 missed_unsat", "missed at first (no 3-4 statement programs): props/solvecore.multi_statement_cases added. Same change was delivered for C02 (C02-m1)"),
 ("C02-m2", "C02", "/tmp/wt_C02", 2, "override rollback moved out of the finally: skipped when the solve fails (randomizer.do_randomize)",
  "foreach / dist constraint, a failing call, a change of a non-random value or list, then the next call", "C16 model_residue + later_call_differs", "delivered three times (C02, C03, C06, C16 agents). C16 first aborted with a replay divergence; divergence of the faulted twin is now a violation"),
 ("C02-m3", "C02", "/tmp/wt_C02", 3, "XExprEvaluator evaluates >= on known values as > (x_expr_evaluator.py)",
  "if/else inside a foreach whose condition uses >= with exactly equal sides (index or non-random field)", "C04 list_constraint_violated", "missed at first: foreach if/else bodies with all six relational operators and boundary constants added to C04"),
 ("C03-m1", "C03", "/tmp/wt_C03", 1, "unconstrained-field filter uses declared-rand instead of the per-call used-rand flag (randomizer.randomize)",
  "a rand-declared field inside a non-random sub-object that no active constraint references", "C03 frame; C08 nonrandom_subobject_changed", "caught as built"),
 ("C03-m2", "C03", "/tmp/wt_C03", 2, "precedence slip in FieldScalarModel.set_used_rand: set_used_rand(False, 0) no longer locks a field",
  "a call in which the field took part, then a free-standing inline call whose constraints mention it without passing it", "C03 frame (freewith ops)", "missed at first; adding free-standing inline calls to C03 exposed a genuine defect on the unchanged tree too (fixed: 0ad3702)"),
 ("C05-m1", "C05", "/tmp/wt_C05", 1, "guards of a deeply nested soft are combined as first & last only (rand_info_builder.visit_constraint_soft)",
  "soft nested three or more conditions deep, outer and inner guard true, a middle one false, conflicting lower-priority soft", "C05 not_greedy_maximal", "missed at first: props/c05.deep_cases added"),
 ("C05-m2", "C05", "/tmp/wt_C05", 2, "guarded soft gets the running counter instead of its accumulated priority",
  "at least two other softs before a conflicting (unguarded, guarded) pair", "C05 not_greedy_maximal", "missed at first: deep_cases (4-5 softs with a late guarded one)"),
 ("C05-m3", "C05", "/tmp/wt_C05", 3, "soft priorities cleared after the solve instead of before; skipped on failure (randomizer.do_randomize)",
  "a failed call followed by randomize_with with an inline soft conflicting with a class-level soft", "C05 not_greedy_maximal (pre_fail cases)", "missed at first: calls after a failed call added"),
 ("C06-m1", "C06", "/tmp/wt_C06", 1, "dynamic-constraint reference cached on the per-class wrapper: first referencing instance owns it",
  "two live instances of one class referencing the same dynamic constraint one after the other", "C06 inline_or_class_constraint_violated", "caught as built"),
 ("C06-m2", "C06", "/tmp/wt_C06", 2, "visit_constraint_dynref resets the active rand set: a Boolean term over dynamic blocks on different fields is attached to one rand set only",
  "d1() | d2() etc. where the blocks constrain fields living in different rand sets", "C06 unexpected_failure / constraint violated on class J", "missed at first: class J (no always-on block relating a and b) and 8 inline combinations added"),
 # wave 2
 ("C07-m1", "C07", "/tmp/wt_C07", 1, "constraint_t.set_model applies the class default to the previously built instance's block",
  "switch a block off on the most recently constructed instance, then construct another instance", "C07 disabled_or_foreign_block_enforced", "caught as built"),
 ("C07-m2", "C07", "/tmp/wt_C07", 2, "obj.<block> rebinds the shared per-class wrapper: the mode seeds every instance built afterwards",
  "toggle, then construct a new instance (also list elements built later)", "C07 enabled_block_not_enforced", "caught as built"),
 ("C07-m3", "C07", "/tmp/wt_C07", 3, "an overridden block is registered once per class that declares its name; constraint_mode reaches the first copy only",
  "hierarchy with an overridden block name + switching the overridden block off on a derived instance", "C07 disabled_or_foreign_block_enforced", "caught as built"),
 ("C09-m1", "C09", "/tmp/wt_C09", 1, "unconstrained enum fields draw from the global random module",
  "a rand enum field in no constraint, explicit RandState, differing global-random activity", "C09 hash_seed/unrelated_activity", "missed at first: unconstrained enum field added to scenario 'plain'"),
 ("C09-m2", "C09", "/tmp/wt_C09", 2, "get_randstate() of a never-seeded object returns a state the object does not use",
  "object never given a state, snapshot before the first call, restore later", "C09 unseeded_snapshot", "missed at first: sub-check added"),
 ("C09-m3", "C09", "/tmp/wt_C09", 3, "RandState.mkFromSeed(seed, strval) mixes the string in through hash()",
  "two-argument mkFromSeed and processes with different PYTHONHASHSEED", "C09 hash_seed", "missed at first: even seeds now use the two-argument form"),
 ("C14-m1", "C14", "/tmp/wt_C14", 1, "min-bound propagator drops the range containing the bound (range_l[i+1:])",
  "multi-range domain from an in-list plus a lower bound strictly inside a range other than the first", "C14 bounds_too_small", "missed at first: in-list x bound programs added to the support space"),
 ("C14-m2", "C14", "/tmp/wt_C14", 2, "mixed-sign guard of bound inference tests the wrong operand",
  "mixed-sign relational constraint with the signed random variable on the right-hand side", "C14 bounds_too_small", "caught as built"),
 ("C14-m3", "C14", "/tmp/wt_C14", 3, "conditional nesting depth kept as a flag instead of a counter (variable_bound_visitor)",
  "if_then nested in another conditional followed by a bound-producing constraint in the outer body", "C14 bounds_too_small", "caught as built"),
 ("C16-m2", "C16", "/tmp/wt_C16", 2, "free-function vsc.randomize_with returns early when its block raised: inline scope never popped",
  "free-function form, user code raising inside the block, then another inline call or a solve_order class", "C16 shared_state_not_idle", "missed at first: 'freewith' fault positions and a free-function follow-up added"),
 ("C16-m3", "C16", "/tmp/wt_C16", 3, "exception in a dynamic-constraint body at construction leaves its scope pushed",
  "a @vsc.dynamic_constraint body raising during construction", "C16 shared_state_not_idle", "missed at first: dynamic-constraint fault positions added"),
 ("C20-m1", "C20", "/tmp/wt_C20", 1, "ordering honoured only for the last rand set (toposort block dedented out of the loop)",
  "two independent groups of constrained variables with the ordered group not created last", "C20 dead_end (UnboundLocalError for directive-only programs) and not_uniform on two-block programs", "programs with an independent field z in another block added"),
 ("C20-m2", "C20", "/tmp/wt_C20", 2, "an after-field keeps only the first field it was ordered after (expand_solve_order_visitor)",
  "an after-field with two or more before-fields (list form or several directives)", "C20 solution_unreachable", "missed at first: solve_order([a,b], c) and two-directive programs added"),
 ("C20-m3", "C20", "/tmp/wt_C20", 3, "only two solve phases: level 0, then everything ordered after it in one batch",
  "three ordering levels; the middle variable follows the number of values of the last", "C20 marginal_depends_on_b (chain-joint)", "missed at first: chain programs with equal (a,b) feasible sets and different c-sides; joint (a,b) marginal compared across programs"),
]

def main():
    os.makedirs("/verif/seeded", exist_ok=True)
    log = ["# Seeded property-breaking changes", "",
           "Every change below was written by a fresh sub-agent that saw only the property text and a scratch git worktree",
           "(nothing from /verif). Each was confirmed by me in a scratch worktree of /repo HEAD (tools/verify_mutant.sh):",
           "the demonstration passes on the unchanged tree and fails with the change, and the repository's own suite",
           "(338 tests) passes with the change. 'detected by' is the check (run against the change with",
           "tools/mut_try.sh) that prints a VIOLATION. No change is ever committed to /repo.", "",
           "| id | property | change | needs | suite with change | detected by | note |", "|---|---|---|---|---|---|---|"]
    for (mid, prop, wt, k, what, needs, det, note) in ROWS:
        res_p = "/tmp/vm_results/%s/result.json" % mid
        d = "/verif/seeded/%s" % mid
        res = json.load(open(res_p)) if os.path.exists(res_p) else None
        have = os.path.exists(d + "/meta.json")
        if res and res.get("demo_clean_rc") == 0 and res.get("demo_mutant_rc") == 1 and res.get("suite_rc") == 0:
            os.makedirs(d, exist_ok=True)
            shutil.copy("%s/_mut/m%d.diff" % (wt, k), d + "/patch.diff")
            shutil.copy("/tmp/vm_results/%s/demo.py" % mid, d + "/demo.py")
            meta = {"id": mid, "breaks_property": prop, "change": what, "needs_in_order_to_manifest": needs,
                    "origin": "sub-agent given only the property text and a scratch worktree",
                    "confirmed": {"repo_head": res["repo_head"], "demo_on_unchanged_tree": "exit 0 (PASS)",
                                  "demo_with_change": "exit 1 (FAIL)", "repository_suite_with_change": res["suite_last_line"],
                                  "how": "tools/verify_mutant.sh (scratch git worktree, removed afterwards)"},
                    "detected_by": det, "note": note,
                    "demo_cmd": "git -C /repo apply /verif/seeded/%s/patch.diff && (cd /tmp && PYTHONPATH=/repo/src /venv/bin/python /verif/seeded/%s/demo.py); git -C /repo checkout -- ." % (mid, mid)}
            txt = open(d + "/demo.py").read().replace("/tmp/vm_%s" % mid, "/repo")
            open(d + "/demo.py", "w").write(txt)
            json.dump(meta, open(d + "/meta.json", "w"), indent=1)
            suite = res["suite_last_line"]
        elif have:
            suite = json.load(open(d + "/meta.json"))["confirmed"]["repository_suite_with_change"]
        else:
            suite = "NOT CONFIRMED YET (%s)" % (res["suite_last_line"] if res else "no run")
        log.append("| %s | %s | %s | %s | %s | %s | %s |" % (mid, prop, what, needs, suite, det, note))
    extra = "/verif/MUTATION_LOG_selfmade.md"
    if os.path.exists(extra):
        log += ["", open(extra).read()]
    open("/verif/MUTATION_LOG.md", "w").write("\n".join(log) + "\n")
    print("seeded:", sorted(os.listdir("/verif/seeded")))

if __name__ == "__main__":
    main()

#!/usr/bin/env python3
"""Assemble /verif/seeded/<id>/ from agent deliverables + my verification results, and MUTATION_LOG.md.
Table rows: id, property, worktree, k, what, needs, detected_by (check/subcheck), notes"""
import json, os, shutil, sys

ROWS = [
 # wave 1
 ("C01-m1", "C01", "/tmp/wt_C01", 1, "else_if attaches new arm only one level down the chain (constraints.py else_if.__init__)",
  "a chain with three or more else_if arms and a solution in which a dropped middle arm's condition is true", "C01 constraint_violated; C02 tt_lowering", "missed by the first grammar (chains of one else_if only): chains with 2-3 else_if arms added to mc/gen.py"),
 ("C01-m2", "C01", "/tmp/wt_C01", 2, "mixed signed/unsigned binary expression extends each operand by its own signedness (expr_bin_model.py)",
  "signed field narrower than the context next to an unsigned operand, negative value", "C01 constraint_violated; C02 missed_unsat", "caught as built"),
 ("C01-m3", "C01", "/tmp/wt_C01", 3, "rand-set merge relinks only the random fields of the absorbed set (rand_info_builder.process_fieldref)",
  "statement order a>n, c<200, a<c, c>n with n non-random: the group is silently never solved", "C01 constraint_violated (multi-statement programs); C02 missed_unsat", "missed at first (no 3-4 statement programs): props/solvecore.multi_statement_cases added. Same change was delivered for C02 (C02-m1)"),
 ("C02-m2", "C02", "/tmp/wt_C02", 2, "override rollback moved out of the finally: skipped when the solve fails (randomizer.do_randomize)",
  "foreach / dist constraint, a failing call, a change of a non-random value or list, then the next call", "C16 model_residue + later_call_differs", "delivered three times (C02, C03, C06, C16 agents). C16 first aborted with a replay divergence; divergence of the faulted twin is now a violation"),
 ("C02-m3", "C02", "/tmp/wt_C02", 3, "XExprEvaluator evaluates >= on known values as > (x_expr_evaluator.py)",
  "if/else inside a foreach whose condition uses >= with exactly equal sides (index or non-random field)", "C04 list_constraint_violated", "missed at first: foreach if/else bodies with all six relational operators and boundary constants added to C04"),
 ("C03-m1", "C03", "/tmp/wt_C03", 1, "unconstrained-field filter uses declared-rand instead of the per-call used-rand flag (randomizer.randomize)",
  "a rand-declared field inside a non-random sub-object that no active constraint references", "C03 frame; C08 nonrandom_subobject_changed", "caught as built"),
 ("C03-m2", "C03", "/tmp/wt_C03", 2, "precedence slip in FieldScalarModel.set_used_rand: set_used_rand(False, 0) no longer locks a field",
  "a call in which the field took part, then a free-standing inline call whose constraints mention it without passing it", "C03 frame (freewith ops)", "missed at first; adding free-standing inline calls to C03 exposed a genuine defect on the unchanged tree too (fixed: 0ad3702)"),
 ("C05-m1", "C05", "/tmp/wt_C05", 1, "guards of a deeply nested soft are combined as first & last only (rand_info_builder.visit_constraint_soft)",
  "soft nested three or more conditions deep, outer and inner guard true, a middle one false, conflicting lower-priority soft", "C05 not_greedy_maximal", "missed at first: props/c05.deep_cases added"),
 ("C05-m2", "C05", "/tmp/wt_C05", 2, "guarded soft gets the running counter instead of its accumulated priority",
  "at least two other softs before a conflicting (unguarded, guarded) pair", "C05 not_greedy_maximal", "missed at first: deep_cases (4-5 softs with a late guarded one)"),
 ("C05-m3", "C05", "/tmp/wt_C05", 3, "soft priorities cleared after the solve instead of before; skipped on failure (randomizer.do_randomize)",
  "a failed call followed by randomize_with with an inline soft conflicting with a class-level soft", "C05 not_greedy_maximal (pre_fail cases)", "missed at first: calls after a failed call added"),
 ("C06-m1", "C06", "/tmp/wt_C06", 1, "dynamic-constraint reference cached on the per-class wrapper: first referencing instance owns it",
  "two live instances of one class referencing the same dynamic constraint one after the other", "C06 inline_or_class_constraint_violated", "caught as built"),
 ("C06-m2", "C06", "/tmp/wt_C06", 2, "visit_constraint_dynref resets the active rand set: a Boolean term over dynamic blocks on different fields is attached to one rand set only",
  "d1() | d2() etc. where the blocks constrain fields living in different rand sets", "C06 unexpected_failure / constraint violated on class J", "missed at first: class J (no always-on block relating a and b) and 8 inline combinations added"),
 # wave 2
 ("C07-m1", "C07", "/tmp/wt_C07", 1, "constraint_t.set_model applies the class default to the previously built instance's block",
  "switch a block off on the most recently constructed instance, then construct another instance", "C07 disabled_or_foreign_block_enforced", "caught as built"),
 ("C07-m2", "C07", "/tmp/wt_C07", 2, "obj.<block> rebinds the shared per-class wrapper: the mode seeds every instance built afterwards",
  "toggle, then construct a new instance (also list elements built later)", "C07 enabled_block_not_enforced", "caught as built"),
 ("C07-m3", "C07", "/tmp/wt_C07", 3, "an overridden block is registered once per class that declares its name; constraint_mode reaches the first copy only",
  "hierarchy with an overridden block name + switching the overridden block off on a derived instance", "C07 disabled_or_foreign_block_enforced", "caught as built"),
 ("C09-m1", "C09", "/tmp/wt_C09", 1, "unconstrained enum fields draw from the global random module",
  "a rand enum field in no constraint, explicit RandState, differing global-random activity", "C09 hash_seed/unrelated_activity", "missed at first: unconstrained enum field added to scenario 'plain'"),
 ("C09-m2", "C09", "/tmp/wt_C09", 2, "get_randstate() of a never-seeded object returns a state the object does not use",
  "object never given a state, snapshot before the first call, restore later", "C09 unseeded_snapshot", "missed at first: sub-check added"),
 ("C09-m3", "C09", "/tmp/wt_C09", 3, "RandState.mkFromSeed(seed, strval) mixes the string in through hash()",
  "two-argument mkFromSeed and processes with different PYTHONHASHSEED", "C09 hash_seed", "missed at first: even seeds now use the two-argument form"),
 ("C14-m1", "C14", "/tmp/wt_C14", 1, "min-bound propagator drops the range containing the bound (range_l[i+1:])",
  "multi-range domain from an in-list plus a lower bound strictly inside a range other than the first", "C14 bounds_too_small", "missed at first: in-list x bound programs added to the support space"),
 ("C14-m2", "C14", "/tmp/wt_C14", 2, "mixed-sign guard of bound inference tests the wrong operand",
  "mixed-sign relational constraint with the signed random variable on the right-hand side", "C14 bounds_too_small", "caught as built"),
 ("C14-m3", "C14", "/tmp/wt_C14", 3, "conditional nesting depth kept as a flag instead of a counter (variable_bound_visitor)",
  "if_then nested in another conditional followed by a bound-producing constraint in the outer body", "C14 bounds_too_small", "caught as built"),
 ("C16-m2", "C16", "/tmp/wt_C16", 2, "free-function vsc.randomize_with returns early when its block raised: inline scope never popped",
  "free-function form, user code raising inside the block, then another inline call or a solve_order class", "C16 shared_state_not_idle", "missed at first: 'freewith' fault positions and a free-function follow-up added"),
 ("C16-m3", "C16", "/tmp/wt_C16", 3, "exception in a dynamic-constraint body at construction leaves its scope pushed",
  "a @vsc.dynamic_constraint body raising during construction", "C16 shared_state_not_idle", "missed at first: dynamic-constraint fault positions added"),
 ("C20-m1", "C20", "/tmp/wt_C20", 1, "ordering honoured only for the last rand set (toposort block dedented out of the loop)",
  "two independent groups of constrained variables with the ordered group not created last", "C20 dead_end (UnboundLocalError for directive-only programs) and not_uniform on two-block programs", "programs with an independent field z in another block added"),
 ("C20-m2", "C20", "/tmp/wt_C20", 2, "an after-field keeps only the first field it was ordered after (expand_solve_order_visitor)",
  "an after-field with two or more before-fields (list form or several directives)", "C20 solution_unreachable", "missed at first: solve_order([a,b], c) and two-directive programs added"),
 ("C20-m3", "C20", "/tmp/wt_C20", 3, "only two solve phases: level 0, then everything ordered after it in one batch",
  "three ordering levels; the middle variable follows the number of values of the last", "C20 marginal_depends_on_b (chain-joint)", "missed at first: chain programs with equal (a,b) feasible sets and different c-sides; joint (a,b) marginal compared across programs"),
 # wave 3 / 4
 ("C04-m1", "C04", "/tmp/wt_C04", 1, "start-of-call reset of the cached list sum/product dropped (FieldArrayModel.pre_randomize)",
  "random-size list with a sum/product constraint whose list the user pre-filled beyond the largest admitted size (or a failed element solve followed by another size)", "C04 list_constraint_violated (rszpre programs)", "missed at first: pre-filled random-size lists added"),
 ("C04-m3", "C04", "/tmp/wt_C04", 3, "trim guard sz >= 0 became sz > 0: an empty random-size list keeps its hidden elements",
  "size constraints admitting 0 and a larger size, an outcome of exactly 0, then append / sum", "C04 edit_not_on_exposed_list", "caught as built"),
 ("C08-m1", "C08", "/tmp/wt_C08", 1, "moved parenthesis in FieldCompositeModel.set_used_rand: a non-random sub-object no longer protects what is below it",
  "depth >= 2: non-random object in the middle with a rand-declared object or list under it", "C08 nonrandom_subobject_changed", "caught as built"),
 ("C08-m2", "C08", "/tmp/wt_C08", 2, "ExprIndexedFieldRefModel.get_target caches the resolved target",
  "subscript indexed by a non-random field that changes between calls; nested foreach over inner lists of different lengths", "C08 indexed_call_failed / index_denotes_wrong_element", "missed at first: index-selected and nested-list programs added"),
 ("C08-m3", "C08", "/tmp/wt_C08", 3, "dynamic-constraint reference in expression mode expands the last-constructed instance's block",
  "two instances of a class with a dynamic constraint, reference through the one not built last (also through a sub-object)", "C06 inline_or_class_constraint_violated", "caught by C06 as built; C06 also gained a holder with two sub-objects"),
 ("C10-m1", "C10", "/tmp/wt_C10", 1, "RangelistModel.intersect: left remainder after a removed range starts at the wrong place",
  "two separate non-adjacent ignore/illegal values inside one bin range", "C10 single_sample", "caught as built"),
 ("C10-m2", "C10", "/tmp/wt_C10", 2, "bin collection finalize indexes child bins by child position instead of bins so far",
  "a one-bin-per-value collection where a multi-value range is followed by another child", "C10 single_sample", "caught as built"),
 ("C10-m3", "C10", "/tmp/wt_C10", 3, "mk_collection partitions the caller's range list in place",
  "a counted bin_array specification object reused by a second coverpoint / second instance", "C10 shared_spec", "missed at first: shared-specification sub-check added"),
 ("C15-m1", "C15", "/tmp/wt_C15", 1, "upper end of a zero-weight range no longer excluded (Le -> Lt)",
  "zero-weight range entry and constraints pushing the field onto its upper end", "C15 zero_or_unlisted_value", "caught as built"),
 ("C15-m2", "C15", "/tmp/wt_C15", 2, "copied dist weight builds its upper bound from the lower bound (constraint_copy_builder)",
  "dist inside a foreach with a range entry lo != hi", "C15 wrong_probability (foreach programs)", "missed at first: dist on list elements inside foreach added (exact marginals)"),
 ("C15-m3", "C15", "/tmp/wt_C15", 3, "randselect skips zero-weight entries but indexes the full list",
  "randselect with a zero weight that is not at the end", "C15 select_probability", "caught as built"),
 ("C17-m1", "C17", "/tmp/wt_C17", 1, "pre_randomize runs after the constraint model was expanded",
  "pre_randomize changing what a foreach ranges over / a non-random field used in an if inside a foreach", "C17 constraints (K7 trees)", "missed at first: K7 (non-random field deciding a branch inside a foreach) added"),
 ("C17-m2", "C17", "/tmp/wt_C17", 2, "elements of random-size object lists never get pre_randomize",
  "randsz_list_t of randobj elements defining pre_randomize", "C17 callback_count", "missed at first: random-size object lists added to the tree generator"),
 ("C17-m3", "C17", "/tmp/wt_C17", 3, "pre_randomize looked up on the decorated root class instead of the instance",
  "a randobj class derived from another randobj class where only the derived class defines the callback", "C17 callback_count", "missed at first: the leaf class now inherits its fields and defines the callbacks in the derived class only"),
 ("C11-m1", "C11", "/tmp/wt_C11", 1, "cross bin index assumes one bin per bin specification",
  "crossed coverpoint with >= 2 bins entries, a multi-bin entry that is not the last, a hit in a later entry", "C11 single_sample", "caught as built"),
 ("C11-m2", "C11", "/tmp/wt_C11", 2, "bin collection keeps a stale hit index on a miss",
  "crossed coverpoint whose bins form a collection, a hit followed by a sample that misses every bin", "C11 sequence", "missed at first: partial collections (values outside every bin) added to the layouts"),
 ("C11-m3", "C11", "/tmp/wt_C11", 3, "cross checks 'iff was evaluated' instead of 'iff is true'",
  "coverpoint with its own iff that hit earlier and is gated off on a later sample", "C11 sequence", "caught as built"),
 ("C18-m1", "C18", "/tmp/wt_C18", 1, "part-select write does not mask the inserted value",
  "slice write with a value wider than the slice (or negative)", "C18 psel_write", "missed at first: wide and negative slice values added"),
 ("C18-m2", "C18", "/tmp/wt_C18", 2, "signed list element read 'simplifies' the two's-complement conversion",
  "signed list element that is negative after a randomize(), read by indexing", "C18 randlist_read", "missed at first: lists read after a solving call added"),
 ("C18-m3", "C18", "/tmp/wt_C18", 3, "enum list index assignment stores the masked bit pattern",
  "IntEnum with a negative enumerator written through l[i] = E.NEG", "C18 interpreter_crash (KeyError while reading)", "caught as built (reported as the exception the read raises)"),
 ("C19-m1", "C19", "/tmp/wt_C19", 1, "single wildcard bin compares against the unmasked value (re-introduces the repaired defect)",
  "(value, mask) tuple whose value has bits outside the mask", "C19 single_bin", "caught as built"),
 ("C19-m2", "C19", "/tmp/wt_C19", 2, "stale loop variable in valmask2binlist",
  "array pattern with two or more wildcard runs of different lengths", "C19 array_bin_count", "missed at first because attributed cases of the open finding filled the per-case report cap: caps are now per kind"),
 ("C19-m3", "C19", "/tmp/wt_C19", 3, "overlap collapse advances its index after a merge",
  "three patterns in one array whose ranges chain-overlap", "C19 array_bin_count", "missed at first: three-pattern arrays added"),
 ("C12-m1", "C12", "/tmp/wt_C12", 1, "a cross notifies its covergroup on the first hit of a bin instead of when the bin reaches at_least (coverpoint_cross_model.sample)",
  "cross with at_least > 1, a coverage query before the decisive sample, and a sample that completes a cross bin without completing a coverpoint bin", "C12 coverage_value", "missed at first twice: coverage queries became an operation of the search, and the state key is now taken before the oracle's own queries (query states had been merged with their parents)"),
 ("C12-m2", "C12", "/tmp/wt_C12", 2, "CovergroupModel.equals overwrites the coverpoint verdict with the verdict on the last cross",
  "parameterised covergroup with a cross, two parameter values whose shapes differ only in a coverpoint outside the cross", "C12 type_hits / type_partition", "missed at first: config x_other (shape parameter changes an uncrossed coverpoint) added"),
 ("C12-m3", "C12", "/tmp/wt_C12", 3, "covergroup average adds the last coverpoint's weight for every cross (stale loop variable)",
  "a cross whose weight differs from the last coverpoint's weight", "C12 coverage_value", "missed at first: config x_weight (cross weights 3 and 0) added"),
 ("C13-m1", "C13", "/tmp/wt_C13", 1, "illegal-bin name lookup does not step the flat index (coverpoint_model._get_target_illegal_bin)",
  "a coverpoint with three or more illegal bins", "C13 saved_db_differs / report_model_differs", "missed at first: config many_special (three illegal and three ignore bins) added"),
 ("C13-m2", "C13", "/tmp/wt_C13", 2, "cross saved with the at_least of the last crossed coverpoint (coverage_save_visitor)",
  "cross at_least different from its last coverpoint's and a cross bin with a count between the two", "C13 report_type_percentage", "missed at first: percentages of the report model are now compared with get_coverage()/get_inst_coverage(); config x_atleast"),
 ("C13-m3", "C13", "/tmp/wt_C13", 3, "covergroup_types() returns and extends the registry's own first list",
  "two covergroup classes and two report/save calls in one registry lifetime", "C13 report_altered_state", "missed at first: second covergroup class in every world; registry lists are part of the state key"),
 # ---- second round (ten fresh agents on the repaired tree); duplicates of first-round changes are not kept
 ("C01-m4", "C01", "/tmp/wt2_C01", 3, "rand sets without a random field are dropped before solving (rand_info_builder.build)",
  "a statement whose fields are all non-random in the call and whose current values violate it", "C01 constraint_violated; C02 missed_unsat", "caught as built (x-only statements of the multi-statement programs)"),
 ("C04-m4", "C04", "/tmp/wt2_C04", 2, "unique_vec compares each vector with its neighbour only",
  "three or more lists in one unique_vec and a small element domain", "C04 list_constraint_violated (uvec2x3, uvec2x4)", "missed at first: unique_vec over 3 and 4 lists added"),
 ("C04-m5", "C04", "/tmp/wt2_C04", "/tmp/wt2_C04/_mut/extra/index_sign.diff", "foreach index literal built as unsigned",
  "index arithmetic compared with the elements of a signed list", "C04 list_constraint_violated (fixed1/int/l[i]>=i+1)", "caught as built"),
 ("C05-m4", "C05", "/tmp/wt2_C05", 1, "guarded soft takes the running counter as its priority", "guarded soft conflicting with an earlier plain soft after two more softs",
  "C05 not_greedy_maximal", "caught as built (same idea as C05-m2, other line)"),
 ("C05-m5", "C05", "/tmp/wt2_C05", 2, "else guard written to the bottom of the guard stack", "soft in an else branch at nesting depth >= 2 or in an else_if chain",
  "C05 not_greedy_maximal", "caught as built"),
 ("C05-m6", "C05", "/tmp/wt2_C05", 3, "one-at-a-time fallback skips the lowest-priority soft", "three softs in one set, a conflict among the later ones, the first compatible with what is kept",
  "C05 not_greedy_maximal", "caught as built"),
 ("C12-m4", "C12", "/tmp/wt2_C12", 1, "coverpoint shape comparison accepts a prefix of the bin list (== became <=)", "two instances differing by trailing extra bins, the smaller created first",
  "C12 type_hits", "missed at first: every world started from the full shape; worlds that start from the small shape added"),
 ("C12-m5", "C12", "/tmp/wt2_C12", 2, "weights are lost when the options are cloned for the type covergroup", "non-default weight and a type-level query",
  "C12 coverage_value (config weights)", "caught as built"),
 ("C13-m4", "C13", "/tmp/wt2_C13", 3, "instance-name uniquifier records the base name instead of the generated one", "three or more same-named instances in one report",
  "C13 instance_names_distinct", "missed at first: instances were compared as multisets of content; the report's instance names under one type must now be pairwise distinct"),
 ("C16-m4", "C16", "/tmp/wt2_C16", 2, "foreach.__exit__ returns early when its body raised", "user code raising inside a foreach body",
  "C16 shared_state_not_idle", "caught as built"),
 ("C16-m5", "C16", "/tmp/wt2_C16", 3, "failure diagnosis releases only the failing rand sets' solver nodes", "failing call with solve_fail_debug=1, a second independent rand set, a later call",
  "C16 model_residue (unsat_debug faults)", "missed at first: failing calls that ask for diagnostics added as fault positions"),
 ("C17-m4", "C17", "/tmp/wt2_C17", 2, "post_randomize reaches list elements within the solved size only", "random-size list of objects whose solved size is smaller than the number of populated elements",
  "C17 callback_count (partial lists)", "missed at first: random-size object lists were pinned to their populated size; partial lists added"),
 ("C18-m4", "C18", "/tmp/wt2_C18", 1, "signed list element read subtracts 2^w from an already signed value", "negative element written by the solver, read by index",
  "C18 randlist_read", "caught as built"),
 ("C18-m5", "C18", "/tmp/wt2_C18", 2, "part-select write stores the merged bits without normalisation", "slice write that changes the sign bit or reaches above the width",
  "C18 psel_write", "caught as built"),
 ("C18-m6", "C18", "/tmp/wt2_C18", 3, "off-by-one in the sign test of scalar set_val", "value congruent to 2^(w-1)", "C18 scalar_member", "caught as built"),
 ("C20-m4", "C20", "/tmp/wt2_C20", 1, "ordering map shared across calls (class-level dict)", "the same object randomized with different inline directives on successive calls",
  "C20 dead_end / earlier_directive_outlives_its_call", "missed at first: direct programs with directives that change between calls added"),
 ("C20-m5", "C20", "/tmp/wt2_C20", 2, "solve_order(x, <list field>) keyed on the list object instead of its elements", "a list field on the after side",
  "C20 not_uniform (list_after)", "missed at first: list on the after side added; the new programs also exposed a genuine defect (68b9e07)"),
 ("C20-m6", "C20", "/tmp/wt2_C20", 3, "toposort generator shared by all rand sets", "two independent ordered pairs in one call",
  "C20 not_uniform (two_groups)", "missed at first: two ordered groups in one call added"),
 ("C02-m4", "C02", "/tmp/wt2_C02", 3, "implies no longer reduces its condition to a truth value (constraint_implies_model.build)",
  "implies whose condition is a multi-bit field or a bit-wise expression", "C02 spurious_failure (BoolectorException)", "missed at first: conditions that are not comparisons added to the grammar (if/implies on p, p&2, p^q, x)"),
 ("C06-m4", "C06", "/tmp/wt2_C06", 2, "soft priorities of the inline constraints are no longer cleared before a call",
  "a soft inside a dynamic constraint, two calls referencing it, a conflicting inline soft after the reference", "C06 inline_or_class_constraint_violated (dynamic blocks with softs)", "missed at first: dynamic constraints containing soft statements and call histories on one object added"),
 ("C06-m5", "C06", "/tmp/wt2_C06", 3, "the block of a dynamic reference used as a term is built with soft=True", "soft next to hard statements in a dynamic constraint referenced under | & ~",
  "C06 inline_or_class_constraint_violated (history ['not'])", "missed at first: same addition"),
 ("C07-m4", "C07", "/tmp/wt2_C07", 2, "rollback of foreach/dist expansions skips switched-off blocks", "block with a foreach, a call while it is off, the list grows, first call after switching it on",
  "C07 enabled_block_not_enforced (foreach block sequences)", "missed at first: all sequences of {off,on,append,rand} on a block with a foreach added"),
 ("C07-m5", "C07", "/tmp/wt2_C07", 3, "constraint_mode finds the block by name prefix", "two blocks where one name extends the other, toggle of the longer name",
  "C07 enabled_block_not_enforced", "missed at first: the second block of the hierarchy is now called c1x"),
 ("C08-m4", "C08", "/tmp/wt2_C08", 1, "'enclosing object is random' flag reset to True after a child composite (rand_info_builder)", "non-random sub-object holding a nested sub-object or list, its own block violated by its values",
  "C08 unexpected_failure", "caught as built"),
 ("C08-m5", "C08", "/tmp/wt2_C08", 3, "array builder visits only the own blocks of object-list elements, not their fields", "foreach in the own block of an object below a list element",
  "C08 subobject_block_not_enforced", "missed at first: own-block foreach below list elements added"),
 ("C10-m4", "C10", "/tmp/wt2_C10", 1, "leftover ranges of a partition: while became if", "counted array whose remainder spills over two or more further ranges",
  "C10 single_sample", "missed at first: counted arrays over five or six isolated values added"),
 ("C10-m5", "C10", "/tmp/wt2_C10", 2, "ignore/illegal tallies counted while iff is false", "coverpoint with iff and ignore/illegal bins, such a value sampled while iff is false", "C10 single_sample", "caught as built"),
 ("C11-m4", "C11", "/tmp/wt2_C11", 1, "type-level cross ignores the iff of its coverpoints", "crossed coverpoint with its own iff, gated-off sample after a hit, type-level cross observed",
  "C11 type_level_cross", "missed at first: the type-level copy of every cross is now compared with the instance's"),
 ("C11-m5", "C11", "/tmp/wt2_C11", 2, "bin offset inside a bin collection counts children instead of bins", "crossed one-bin-per-value array listing a range before further values",
  "C11 single_sample", "missed at first: layout range_then_value added"),
 ("C11-m6", "C11", "/tmp/wt2_C11", 3, "tuple-to-bin map shared by all crosses (class attribute)", "two crosses of the same arity and different shapes alive together",
  "C11 single_sample", "missed at first: a second cross over the same coverpoints in the other order added"),
 ("C14-m5", "C14", "/tmp/wt2_C14", 3, "off-by-one in the mirrored '<expr> <= <var>' bound", "<= with a non-random expression on the left and the random field on the right",
  "C14 bounds_too_small", "missed at first: every relational operator with x+1, x-1, x+0 on the left added"),
 ("C15-m4", "C15", "/tmp/wt2_C15", 2, "weight table built once per dist statement and reused", "weights given by non-random fields changed between calls on one object",
  "C15 wrong_probability (changing weights)", "missed at first: weight histories on one object added (exact distribution of the last call)"),
 ("C15-m5", "C15", "/tmp/wt2_C15", 3, "distselect draws from 0..total", "a zero-weight entry or an exact frequency check", "C15 select_probability", "caught as built"),
 ("C19-m4", "C19", "/tmp/wt2_C19", 1, "'_' in an octal wildcard string shifts like a digit", "octal string pattern containing '_'", "C19 array_bin_count", "caught as built"),
 ("C19-m5", "C19", "/tmp/wt2_C19", 3, "WildcardBinspec.equals ignores the mask", "covergroup class parameterised by the pattern, two instances with the same masked value and different masks",
  "C12 type_partition (config wild)", "missed at first: wildcard bins whose pattern is a constructor parameter added to the population search"),
]

def main():
    os.makedirs("/verif/seeded", exist_ok=True)
    log = ["# Seeded property-breaking changes", "",
           "Every change below was written by a fresh sub-agent that saw only the property text and a scratch git worktree",
           "(nothing from /verif). Each was confirmed by me in a scratch worktree of /repo HEAD (tools/verify_mutant.sh):",
           "the demonstration passes on the unchanged tree and fails with the change, and the repository's own suite",
           "(338 tests) passes with the change. 'detected by' is the check (run against the change with",
           "tools/mut_try.sh) that prints a VIOLATION. No change is ever committed to /repo.", "",
           "| id | property | change | needs | suite with change | detected by | note |", "|---|---|---|---|---|---|---|"]
    for (mid, prop, wt, k, what, needs, det, note) in ROWS:
        res_p = "/tmp/vm_results/%s/result.json" % mid
        d = "/verif/seeded/%s" % mid
        res = json.load(open(res_p)) if os.path.exists(res_p) else None
        have = os.path.exists(d + "/meta.json")
        src_diff = k if isinstance(k, str) else "%s/_mut/m%d.diff" % (wt, k)
        if res and res.get("demo_clean_rc") == 0 and res.get("demo_mutant_rc") == 1 and res.get("suite_rc") == 0 and (
                os.path.exists(src_diff) or not have):
            os.makedirs(d, exist_ok=True)
            shutil.copy(k if isinstance(k, str) else "%s/_mut/m%d.diff" % (wt, k), d + "/patch.diff")
            shutil.copy("/tmp/vm_results/%s/demo.py" % mid, d + "/demo.py")
            meta = {"id": mid, "breaks_property": prop, "change": what, "needs_in_order_to_manifest": needs,
                    "origin": "sub-agent given only the property text and a scratch worktree",
                    "confirmed": {"repo_head": res["repo_head"], "demo_on_unchanged_tree": "exit 0 (PASS)",
                                  "demo_with_change": "exit 1 (FAIL)", "repository_suite_with_change": res["suite_last_line"],
                                  "how": "tools/verify_mutant.sh (scratch git worktree, removed afterwards)"},
                    "detected_by": det, "note": note,
                    "demo_cmd": "git -C /repo apply /verif/seeded/%s/patch.diff && (cd /tmp && PYTHONPATH=/repo/src /venv/bin/python /verif/seeded/%s/demo.py); git -C /repo checkout -- ." % (mid, mid)}
            txt = open(d + "/demo.py").read().replace("/tmp/vm_%s" % mid, "/repo")
            if wt.startswith("/tmp/wt2_"):
                meta["origin"] = "second-round sub-agent (fresh; given only the property text and a scratch worktree)"
            open(d + "/demo.py", "w").write(txt)
            json.dump(meta, open(d + "/meta.json", "w"), indent=1)
            suite = res["suite_last_line"]
        elif have:
            suite = json.load(open(d + "/meta.json"))["confirmed"]["repository_suite_with_change"]
        else:
            suite = "NOT CONFIRMED YET (%s)" % (res["suite_last_line"] if res else "no run")
        log.append("| %s | %s | %s | %s | %s | %s | %s |" % (mid, prop, what, needs, suite, det, note))
    extra = "/verif/MUTATION_LOG_selfmade.md"
    if os.path.exists(extra):
        log += ["", open(extra).read()]
    open("/verif/MUTATION_LOG.md", "w").write("\n".join(log) + "\n")
    print("seeded:", sorted(os.listdir("/verif/seeded")))

if __name__ == "__main__":
    main()

#!/bin/bash
# usage: verify_mutant.sh <id> <patch.diff> <demo.py> [jobs]
# Confirms in a scratch worktree of /repo HEAD: demo passes on the clean tree, fails with the patch, repository suite passes with the patch.
id=$1; patch=$2; demo=$3; j=${4:-4}
wt=/tmp/vm_$id
out=/tmp/vm_results/$id; mkdir -p $out
git -C /repo worktree remove --force $wt >/dev/null 2>&1
git -C /repo worktree add -q --detach $wt HEAD || exit 2
head=$(git -C /repo rev-parse --short HEAD)
sed -e "s#/tmp/wt[234]\{0,1\}_C[0-9]*#$wt#g" -e "s#/repo#$wt#g" "$demo" > $out/demo.py
( cd /tmp && PYTHONPATH=$wt/src /venv/bin/python $out/demo.py > $out/demo_clean.log 2>&1 ); rc_clean=$?
git -C $wt apply "$patch" || { echo "{\"id\":\"$id\",\"error\":\"patch does not apply to $head\"}" > $out/result.json; git -C /repo worktree remove --force $wt; exit 1; }
( cd /tmp && PYTHONPATH=$wt/src /venv/bin/python $out/demo.py > $out/demo_mut.log 2>&1 ); rc_mut=$?
( cd $wt && PYTHONPATH=$wt/src /venv/bin/python -m pytest -q -p no:cacheprovider -p no:warnings --timeout=3000 -n $j > $out/suite.log 2>&1 ); rc_suite=$?
last=$(tail -1 $out/suite.log)
echo "{\"id\":\"$id\",\"repo_head\":\"$head\",\"demo_clean_rc\":$rc_clean,\"demo_mutant_rc\":$rc_mut,\"suite_rc\":$rc_suite,\"suite_last_line\":\"$last\"}" > $out/result.json
git -C /repo worktree remove --force $wt
cat $out/result.json

#!/bin/bash
# usage: run_suite.sh <repo_dir> <out_prefix> [jobs]   -- runs the repository's own test suite against <repo_dir>/src
d=$1; out=$2; j=${3:-8}
cd "$d" && PYTHONPATH="$d/src" /venv/bin/python -m pytest -q -p no:cacheprovider --timeout=900 -p no:warnings -n "$j" \
   --continue-on-collection-errors --junitxml="$out.junit.xml" > "$out.log" 2>&1
echo "exit=$?" >> "$out.log"
tail -3 "$out.log"

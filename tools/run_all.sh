#!/bin/bash
# runs the quick tier of every registered check, prints exit code and wall time
cd /verif
for id in $(python3 -c "import json;print(' '.join(c['property_id'] for c in json.load(open('MANIFEST.json'))['checks']))"); do
  s=$(date +%s); ./check $id --tier ${1:-quick} > /tmp/runall_$id.log 2>&1; rc=$?; e=$(date +%s)
  echo "$id rc=$rc $((e-s))s $(grep -c '^VIOLATION' /tmp/runall_$id.log) violations; $(grep -c KNOWN-FINDING /tmp/runall_$id.log) known"
done

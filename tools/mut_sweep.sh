#!/bin/bash
# usage: mut_sweep.sh [parallel]   -- re-runs, for every confirmed change under /verif/seeded, the check named first in its
# meta.json 'detected_by' against a scratch worktree with the change applied; prints one line per change (rc=1 expected)
par=${1:-4}
out=/tmp/mut_sweep; mkdir -p $out
run_one() {
  id=$1; d=/verif/seeded/$id
  chk=$(python3 -c "import json,re;print(re.findall(r'C\d\d', json.load(open('$d/meta.json'))['detected_by'])[0])")
  wt=/tmp/ms_$id
  git -C /repo worktree remove --force $wt >/dev/null 2>&1
  git -C /repo worktree add -q --detach $wt HEAD || { echo "$id worktree failed"; return; }
  if git -C $wt apply $d/patch.diff 2>/dev/null; then
    PYVSC_SRC=$wt/src VERIF_JOBS=4 VERIF_MAX_VIOL=2 /verif/check $chk --tier quick > $out/$id.log 2>&1; rc=$?
    echo "$id $chk rc=$rc $(grep -m1 'subcheck=' $out/$id.log | cut -c1-120)"
  else
    echo "$id $chk PATCH-DOES-NOT-APPLY"
  fi
  git -C /repo worktree remove --force $wt >/dev/null 2>&1
}
export -f run_one; export out
ls /verif/seeded | xargs -P $par -I{} bash -c 'run_one {}'

"""Shared machinery: import of the code under test, scripted environment,
choice-point explorer (E1), parallel driver.

Everything here drives the *real* pyvsc from /repo/src; nothing is modelled.
"""
import os
import sys
import io
import json
import time
import hashlib
import itertools
import contextlib
import traceback
from fractions import Fraction

REPO_SRC = os.environ.get("PYVSC_SRC", "/repo/src")
VERIF = os.path.dirname(os.path.dirname(os.path.abspath(__file__)))

os.environ.setdefault("PYVSC_VERIF", "1")

if REPO_SRC not in sys.path:
    sys.path.insert(0, REPO_SRC)

import vsc  # noqa: E402

assert os.path.abspath(vsc.__file__).startswith(os.path.abspath(REPO_SRC)), \
    "vsc imported from %s, not from %s" % (vsc.__file__, REPO_SRC)

from vsc.model.rand_state import RandState  # noqa: E402
from vsc.model.solve_failure import SolveFailure  # noqa: E402


# --------------------------------------------------------------------------
# inspect.stack() is called by the library on every construction and every
# randomize call only to record file:line of the caller; the stock version
# reads source files for every frame of the (deep) harness stack and dominates
# the run time.  Same frames, same filename/lineno/function, no source context.
# --------------------------------------------------------------------------
import inspect as _inspect
import collections as _collections

_FastFrame = _collections.namedtuple("FrameInfo", "frame filename lineno function code_context index")


def _fast_stack(context=1):
    f = sys._getframe(1)
    out = []
    while f is not None:
        out.append(_FastFrame(f, f.f_code.co_filename, f.f_lineno, f.f_code.co_name, None, None))
        f = f.f_back
    return out


if os.environ.get("PYVSC_VERIF_SLOW_INSPECT", "") == "":
    _inspect.stack = _fast_stack


class HarnessError(Exception):
    """Raised when the harness itself is wrong (replay divergence, ...)."""


# --------------------------------------------------------------------------
# stdout of the library
# --------------------------------------------------------------------------

class _Null(io.TextIOBase):
    def write(self, s):
        return len(s)

    def flush(self):
        pass


_NULL = _Null()
_REAL_STDOUT = sys.stdout


def quiet():
    """Route library prints to nowhere (workers call this once)."""
    sys.stdout = _NULL
    # pyboolector prints "Exception ignored in __dealloc__" for nodes whose
    # construction raised; the raising call itself is observed as an outcome
    sys.unraisablehook = lambda *a: None


def loud():
    sys.stdout = _REAL_STDOUT


@contextlib.contextmanager
def silenced():
    old = sys.stdout
    sys.stdout = _NULL
    try:
        yield
    finally:
        sys.stdout = old


# --------------------------------------------------------------------------
# scripted environment answers
# --------------------------------------------------------------------------

WIDE = 16   # arities above this use a boundary menu (declared non-exhaustive)


def menu_for(n):
    """Indices offered at a choice point of arity n."""
    if n <= WIDE:
        return list(range(n))
    m = sorted(set([0, 1, n // 2, n - 2, n - 1]))
    return m


def _call_tag():
    """(function, field name) of the library code that asked for a random
    number: lets an oracle restrict deviations to the draws of given fields."""
    f = sys._getframe(2)
    while f is not None:
        fn = f.f_code.co_filename
        if not (fn.endswith("rand_state.py") or fn.endswith("mc/common.py")):
            break
        f = f.f_back
    if f is None:
        return ("?", None)
    loc = f.f_locals
    fld = loc.get("f", None) or loc.get("uf", None)
    name = None
    if fld is not None and hasattr(fld, "name"):
        try:
            name = fld.fullname if hasattr(fld, "fullname") else fld.name
        except Exception:
            name = getattr(fld, "name", None)
    if isinstance(name, str):
        name = name.replace(".<unknown-array>", "")
    ranges = None
    rl = loc.get("range_l", None)
    if rl is not None and "t_range" not in loc and "bit_pattern" not in loc:
        try:
            if len(rl) > 1:
                ranges = tuple((int(r[0]), int(r[1])) for r in rl)   # this draw picks one of these ranges
        except Exception:
            ranges = None
    if f.f_code.co_name == "swizzle_field_l" and "idx" not in loc and "field_l" in loc:
        name = None
        # this draw picks which of the remaining fields is swizzled next (at most 4 per group)
        try:
            ranges = ("pick",) + tuple(str(getattr(x, "fullname", getattr(x, "name", "?"))).replace(".<unknown-array>", "")
                                       for x in loc["field_l"])
        except Exception:
            ranges = None
    return (f.f_code.co_name, name, ranges)


class Script(object):
    """One execution's sequence of environment answers.

    prefix : list of answer indices to replay; later points answer 0.
    trace  : list of (chosen, arity) actually taken.
    """

    def __init__(self, prefix=(), extra_menu=None):
        self.prefix = list(prefix)
        self.trace = []
        self.i = 0
        self.wide = False
        self.extra_menu = extra_menu   # callable(lo,hi)->iterable of values
        self.strategy = None           # callable(tag, lo, arity) -> answer index (witness-directed runs)

    def choose(self, n, lo=None):
        if n <= 0:
            raise HarnessError("choice point with arity %d" % n)
        tag = _call_tag()
        if self.i < len(self.prefix):
            c = self.prefix[self.i]
            if not (0 <= c < n):
                raise HarnessError(
                    "replay divergence: answer %d at point %d, arity %d" % (c, self.i, n))
        elif self.strategy is not None:
            c = self.strategy(tag, lo, n)
            if c is None or not (0 <= c < n):
                c = 0
        else:
            c = 0
        alts = None
        if n > WIDE:
            self.wide = True
            alts = menu_for(n)
            if self.extra_menu is not None and lo is not None:
                for v in self.extra_menu(lo, lo + n - 1):
                    if lo <= v < lo + n:
                        alts.append(v - lo)
                alts = sorted(set(alts))
        self.trace.append((c, n, alts, tag))
        self.i += 1
        return c

    def prob(self):
        p = Fraction(1)
        for t in self.trace:
            p /= t[1]
        return p

    def choices(self):
        return [t[0] for t in self.trace]


class SRng(object):
    """Stand-in for random.Random: every draw is a choice point."""

    def __init__(self, script):
        self.s = script

    def randint(self, lo, hi):
        lo = int(lo)
        hi = int(hi)
        if hi < lo:
            lo, hi = hi, lo
        return lo + self.s.choose(hi - lo + 1, lo)

    def randrange(self, a, b=None):
        if b is None:
            a, b = 0, a
        return a + self.s.choose(b - a, a)

    def random(self):
        # not used by the library's solve path; kept deterministic
        return 0.0

    def getstate(self):
        return ("scripted",)

    def setstate(self, st):
        pass

    def seed(self, *a, **k):
        pass


class SRandState(RandState):
    """RandState whose generator is the explorer's script.

    clone() returns self so that set_randstate() (which clones) keeps the
    script attached; snapshot semantics are C09's business and use the real
    RandState there.
    """

    def __init__(self, script):
        self.rng = SRng(script)

    def clone(self):
        return self


def witness_strategy(target, priority=()):
    """Strategy for a witness-directed execution: every range pick / bit
    pattern / direct draw of a field named in target (fullname -> value) is
    answered with the target's value; everything else takes the default.
    The execution's recorded plain choice sequence replays without it."""
    def strat(tag, lo, n):
        fn, name, ranges = tag
        if fn == "swizzle_field_l" and ranges and ranges[0] == "pick":
            names = ranges[1:]
            for pname in priority:
                if pname in names:
                    return names.index(pname)
            return None
        if name is None or name not in target:
            return None
        v = target[name]
        if fn == "create_rand_domain_constraint":
            if ranges is not None:
                for i, (a, b) in enumerate(ranges):
                    if a <= v <= b:
                        return i
                return None
            if lo is not None and lo <= v < lo + n:
                return v - lo
            return None
        if fn == "randomize":           # unconstrained field drawn directly
            if lo is not None and lo <= v < lo + n:
                return v - lo
        return None
    return strat


def install(obj, script):
    """Attach a scripted random state to a randobj through the public API."""
    obj.set_randstate(SRandState(script))


# --------------------------------------------------------------------------
# E1: choice-point explorer
# --------------------------------------------------------------------------

class Exec(object):
    __slots__ = ("prefix", "choices", "trace", "obs", "prob", "dev", "wide")


def explore(run, bound=None, cap=None, extra_menu=None, state=None, point_filter=None):
    """Depth-first exploration of environment-answer sequences.

    run(script) -> observation (any value).  Yields Exec records.
    bound=None : the complete tree.  bound=d : all executions with at most d
    non-default answers.  cap : maximal number of executions; if work was left
    when the cap was reached state['capped'] is set (a capped run is never
    called exhaustive by the callers).
    """
    if state is None:
        state = {}
    state["capped"] = False
    state["wide"] = False
    stack = [([], 0)]
    n = 0
    while stack:
        pre, dev = stack.pop()
        s = Script(pre, extra_menu)
        obs = run(s)
        if s.i < len(pre):
            raise HarnessError("replay divergence: execution shorter (%d) than prefix (%d)"
                               % (s.i, len(pre)))
        x = Exec()
        x.prefix = pre
        x.choices = s.choices()
        x.trace = s.trace
        x.obs = obs
        x.prob = s.prob()
        x.dev = dev
        x.wide = s.wide
        if s.wide:
            state["wide"] = True
        n += 1
        if bound is None or dev < bound:
            for i in range(len(s.trace) - 1, len(pre) - 1, -1):
                c, ar, alts, tag = s.trace[i]
                if point_filter is not None and not point_filter(tag):
                    continue
                if alts is None:
                    alts = range(ar)
                base = x.choices[:i]
                for alt in alts:
                    if alt != c:
                        stack.append((base + [alt], dev + 1))
        yield x
        if cap is not None and n >= cap and stack:
            state["capped"] = True
            return


def explore_all(run, bound=None, cap=None, extra_menu=None):
    """Run explore() to the end; return (list of Exec, complete?).

    complete is True only if nothing was capped and no wide (menu-sampled)
    choice point occurred."""
    st = {}
    out = list(explore(run, bound, cap, extra_menu, st))
    return out, (not st["capped"]) and (not st["wide"])


def distribution(execs):
    """Exact outcome distribution from a complete tree."""
    d = {}
    tot = Fraction(0)
    for x in execs:
        d[x.obs] = d.get(x.obs, Fraction(0)) + x.prob
        tot += x.prob
    return d, tot


# --------------------------------------------------------------------------
# calling the library and classifying how the call ended
# --------------------------------------------------------------------------

def outcome(fn):
    """Run fn(); return ('ok', value) / ('solvefail',) / ('exc', type, msg)."""
    try:
        v = fn()
        return ("ok", v)
    except SolveFailure:
        return ("solvefail",)
    except HarnessError:
        raise
    except Exception as e:  # noqa
        return ("exc", type(e).__name__, str(e)[:120])


def reset_globals():
    """What a fresh user session would see (used by checks that are not
    about leakage)."""
    from vsc.impl import ctor, expr_mode
    ctor.test_setup()
    expr_mode._expr_mode.clear() if hasattr(expr_mode, "_expr_mode") and \
        isinstance(expr_mode._expr_mode, list) else None


# --------------------------------------------------------------------------
# parallel driver
# --------------------------------------------------------------------------

def _worker_init():
    quiet()


def nproc():
    try:
        n = int(os.environ.get("VERIF_JOBS", "0"))
    except ValueError:
        n = 0
    if n <= 0:
        n = min(16, os.cpu_count() or 1)
    return n


def _run_chunk(args):
    func, chunk = args
    quiet()
    out = []
    for item in chunk:
        out.append(func(item))
    return out


class Crashed(dict):
    """result placeholder for an item during which the worker process died (segfault / abort inside the
    library) or exceeded the per-item time limit.  Callers turn it into a violation."""


def _single(args):
    func, item = args
    quiet()
    return func(item)


def pmap(func, items, chunk=None, jobs=None, item_timeout=None):
    """Map func over items in worker processes (fork).  Results in order.

    A worker that dies (the library crashed the interpreter) or hangs does not hang the check: the items of
    the broken batch are re-run one by one in single-use processes with a time limit, and the culprit's
    result is a Crashed placeholder (see good())."""
    items = list(items)
    jobs = jobs or nproc()
    if item_timeout is None:
        item_timeout = float(os.environ.get("VERIF_ITEM_TIMEOUT", "900"))
    if jobs == 1 or len(items) <= 1:
        old = sys.stdout
        quiet()
        try:
            return [func(i) for i in items]
        finally:
            sys.stdout = old
    import multiprocessing as mp
    from concurrent.futures import ProcessPoolExecutor, as_completed
    from concurrent.futures.process import BrokenProcessPool
    if chunk is None:
        chunk = max(1, min(64, len(items) // (jobs * 8) or 1))
    chunks = [items[i:i + chunk] for i in range(0, len(items), chunk)]
    ctx = mp.get_context("fork")
    results = [None] * len(chunks)
    redo = []
    ex = ProcessPoolExecutor(jobs, mp_context=ctx, initializer=_worker_init)
    try:
        futs = {ex.submit(_run_chunk, (func, c)): i for i, c in enumerate(chunks)}
        budget = item_timeout * max(1, chunk) * (len(chunks) / float(jobs) + 1)
        try:
            for f in as_completed(futs, timeout=budget):
                i = futs[f]
                try:
                    results[i] = f.result()
                except BrokenProcessPool:
                    redo.append(i)
                except HarnessError:
                    raise
        except Exception as e:
            if isinstance(e, HarnessError):
                raise
            # timeout of the whole batch or a broken pool: everything without a result is re-done
            pass
        for f, i in futs.items():
            if results[i] is None and i not in redo:
                redo.append(i)
    finally:
        procs = list((getattr(ex, "_processes", None) or {}).values())
        ex.shutdown(wait=False, cancel_futures=True)
        for p in procs:
            try:
                p.kill()
            except Exception:
                pass
    for i in sorted(redo):
        out = []
        for item in chunks[i]:
            out.append(_isolated(func, item, ctx, item_timeout))
        results[i] = out
    flat = []
    for r in results:
        flat.extend(r)
    return flat


def _isolated(func, item, ctx, timeout):
    """run one item in a single-use process; Crashed placeholder if the process dies or hangs"""
    rd, wr = ctx.Pipe(duplex=False)

    def child():
        quiet()
        try:
            r = func(item)
            wr.send(("ok", r))
        except HarnessError as e:
            wr.send(("harness", str(e)))
        except BaseException as e:   # noqa
            wr.send(("exc", "%s: %s" % (type(e).__name__, str(e)[:200])))
        finally:
            wr.close()
    p = ctx.Process(target=child)
    p.start()
    wr.close()
    msg = None
    try:
        if rd.poll(timeout):
            msg = rd.recv()
    except (EOFError, OSError):
        msg = None
    if p.is_alive() and msg is None:
        p.kill()
        p.join()
        return Crashed(reason="no result within %ds (hang)" % timeout, item=_short(item))
    p.join(5)
    if msg is None:
        return Crashed(reason="worker process died (exit code %r) - the library crashed the interpreter" % p.exitcode, item=_short(item))
    if msg[0] == "ok":
        return msg[1]
    if msg[0] == "harness":
        raise HarnessError(msg[1])
    return Crashed(reason="worker raised " + msg[1], item=_short(item))


def _short(item):
    s = repr(item)
    return s if len(s) < 1500 else s[:1500] + "..."


def good(items, results, res, sub="interpreter_crash"):
    """iterate (item, result) pairs; Crashed placeholders become violations of res"""
    for it, r in zip(items, results):
        if isinstance(r, Crashed):
            res.violation({"subcheck": sub, "case": {"item": r.get("item")}, "observed": r.get("reason"), "expected": "the call returns or raises",
                           "what": "while exploring %s: %s" % (r.get("item", "")[:300], r.get("reason")), "finding": None})
            continue
        yield it, r


def rotate(items, seed):
    """VERIF_SEED only rotates the order; the explored set is unchanged."""
    items = list(items)
    if not items:
        return items
    k = seed % len(items)
    return items[k:] + items[:k]


def jhash(obj):
    return hashlib.sha1(json.dumps(obj, sort_keys=True, default=str).encode()).hexdigest()[:12]

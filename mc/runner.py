"""Result bookkeeping: evidence file, replay files, known findings, exit code."""
import os
import sys
import json
import time

from . import common

VERIF = common.VERIF
# evidence and replay files describe /repo itself; a run against another source tree (PYVSC_SRC, used to try the
# checks on seeded changes) writes them to a scratch directory instead
OUT = os.environ.get("VERIF_OUT") or ("/tmp/verif_out_other_tree" if os.environ.get("PYVSC_SRC") else VERIF)
EVID_DIR = os.path.join(OUT, "evidence")
REPLAY_DIR = os.path.join(OUT, "replays")
KNOWN_FILE = os.path.join(VERIF, "known_findings.json")


def load_known(pid):
    """Open findings of one property: id -> entry. Never written at run time."""
    if not os.path.exists(KNOWN_FILE):
        return {}
    data = json.load(open(KNOWN_FILE))
    out = {}
    for e in data.get("findings", []):
        if e.get("property") == pid and e.get("status") == "open":
            out[e["id"]] = e
    return out


class Result(object):
    def __init__(self, pid, tier, seed, level="model_checking"):
        self.level = level
        self.pid = pid
        self.tier = tier
        self.seed = seed
        self.t0 = time.time()
        self.cov = {
            "states": 0, "transitions": 0, "traces_validated_against_impl": 0,
            "evaluations": 0, "distinct_nontrivial": 0, "rule": "",
            "samples": [], "exhaustive": False,
        }
        self.assumptions = []
        self.violations = []     # dicts: subcheck, what, case, observed, expected, finding
        self.max_viol = int(os.environ.get("VERIF_MAX_VIOL", "40"))
        self.sub = {}            # per-subcheck counters

    # ---- counters --------------------------------------------------------
    def add(self, key, n=1):
        self.cov[key] = self.cov.get(key, 0) + n

    def subcount(self, sub, key, n=1):
        d = self.sub.setdefault(sub, {})
        d[key] = d.get(key, 0) + n

    def sample(self, s, limit=6):
        if len(self.cov["samples"]) < limit:
            self.cov["samples"].append(s)

    def violation(self, v):
        self.violations.append(v)

    def merge_counts(self, d):
        """Merge a worker's counter dict {key:int|dict}."""
        for k, v in d.items():
            if isinstance(v, dict):
                t = self.sub.setdefault(k, {})
                for kk, vv in v.items():
                    t[kk] = t.get(kk, 0) + vv
            else:
                self.cov[k] = self.cov.get(k, 0) + v

    # ---- finish ----------------------------------------------------------
    def finish(self):
        known = load_known(self.pid)
        os.makedirs(EVID_DIR, exist_ok=True)
        new_viol = []
        known_hits = {}
        for v in self.violations:
            fid = v.get("finding")
            if fid is not None and fid in known:
                known_hits.setdefault(fid, []).append(v)
            else:
                new_viol.append(v)
        lines = []
        for fid in sorted(known_hits):
            e = known[fid]
            lines.append("KNOWN-FINDING: property=%s %s [%s; %d matching case(s) this run]" % (
                self.pid, e["what"], fid, len(known_hits[fid])))
        replay_paths = []
        if new_viol:
            d = os.path.join(REPLAY_DIR, self.pid)
            os.makedirs(d, exist_ok=True)
            seen = set()
            for v in new_viol:
                h = common.jhash([v.get("subcheck"), v.get("case"), v.get("observed")])
                if h in seen:
                    continue
                seen.add(h)
                if len(replay_paths) >= self.max_viol:
                    break
                path = os.path.join(d, h + ".json")
                rec = dict(v)
                rec["property"] = self.pid
                with open(path, "w") as f:
                    json.dump(rec, f, indent=1, sort_keys=True, default=str)
                replay_paths.append((path, v))
        cov = dict(self.cov)
        cov["subchecks"] = self.sub
        cov["known_findings_matched"] = {k: len(v) for k, v in known_hits.items()}
        if not cov["samples"]:
            cov["samples"] = ["(no sample recorded)"]
        ev = {
            "property_id": self.pid,
            "tier": self.tier,
            "seed": self.seed,
            "level": self.level,
            "coverage": cov,
            "assumptions": self.assumptions,
            "wall_s": round(time.time() - self.t0, 2),
            "violations": len(new_viol),
        }
        with open(os.path.join(EVID_DIR, self.pid + ".json"), "w") as f:
            json.dump(ev, f, indent=1, sort_keys=True, default=str)
        common.loud()
        for ln in lines:
            print(ln)
        for path, v in replay_paths:
            print("VIOLATION property=%s replay=%s" % (self.pid, path))
            print("   subcheck=%s %s" % (v.get("subcheck"), str(v.get("what"))[:300]))
        if new_viol:
            bysub = {}
            for v in new_viol:
                bysub[v.get("subcheck")] = bysub.get(v.get("subcheck"), 0) + 1
            print("violations by subcheck: %s" % json.dumps(bysub, sort_keys=True))
        print("%s %s: states=%d transitions=%d executions=%d distinct_nontrivial=%d "
              "violations=%d known=%d wall=%.1fs" % (
                  self.pid, self.tier, cov["states"], cov["transitions"],
                  cov["traces_validated_against_impl"], cov["distinct_nontrivial"],
                  len(new_viol), sum(len(v) for v in known_hits.values()),
                  time.time() - self.t0))
        sys.stdout.flush()
        return 1 if new_viol else 0

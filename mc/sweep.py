"""Sweep engine shared by C01 / C02 / C14: run one program (a real randobj
class built from an AST) under every enumerated environment-answer sequence
and compare with the reference model.

A *case* is (program, list of pre-call assignments X).  For every X:
  * the reference enumerates the random fields' value space (core widths),
  * the explorer runs the real call for every answer sequence within the
    deviation bound (fresh instance per execution),
  * the requested oracles are evaluated on every execution.
"""
import itertools

from . import common, ref, prog as P
from .common import vsc, Script, SRandState, explore, HarnessError

from vsc.model.randomizer import Randomizer

# ---------------------------------------------------------------- bound capture

_captured = {"on": False, "bounds": None}
_orig_randomize = Randomizer.randomize


def _wrapped_randomize(self, ri, bound_m):
    if _captured["on"]:
        b = {}
        for f, bm in bound_m.items():
            try:
                b[f.fullname if hasattr(f, "fullname") else f.name] = (
                    [list(map(int, r)) for r in bm.domain.range_l], f.name)
            except Exception:
                pass
        _captured["bounds"] = b
        uc = set()
        try:
            for f in ri.unconstrained():
                uc.add(f.name)
        except Exception:
            pass
        _captured["unconstrained"] = uc
    return _orig_randomize(self, ri, bound_m)


if getattr(Randomizer.randomize, "__name__", "") != "_wrapped_randomize":
    if not hasattr(Randomizer, "randomize"):
        raise HarnessError("Randomizer.randomize seam disappeared")
    Randomizer.randomize = _wrapped_randomize


def rand_names(prog):
    return [f[0] for f in prog['fields'] if f[3]]


def field_doms(prog):
    d = {}
    for name, kind, w, rnd, init in prog['fields']:
        if kind == 'enum':
            d[name] = list(P.EN_VALUES)
        else:
            d[name] = list(ref.dom(w, kind == 'int'))
    return d


def active_stmts(prog):
    st = list(prog.get('block') or [])
    if prog.get('block2'):
        st += list(prog['block2'])
    if prog.get('call') in ('randomize_with', 'vsc.randomize_with', 'vsc.randomize_with_fields'):
        st = ([] if prog.get('call') == 'vsc.randomize_with_fields' else st) + list(prog.get('inline') or [])
    return st


def solve_ref(prog, X, rnames=None):
    """(sols, amb) over the random fields given pre-call values X."""
    types = P.types_of(prog)
    doms = field_doms(prog)
    if rnames is None:
        rnames = rand_names(prog)
    stmts = [s for s in active_stmts(prog) if s[0] != 'soft']
    vals = {}
    for name, kind, w, rnd, init in prog['fields']:
        vals[name] = X.get(name, P.EN_VALUES[0] if kind == 'enum' else ref.tosigned(init, w) if kind == 'int' else init & ref.mask(w))
    sols = []
    amb = []
    for tup in itertools.product(*[doms[n] for n in rnames]):
        for n, v in zip(rnames, tup):
            vals[n] = v
        t = ref.block_truth(stmts, types, vals)
        if t is True:
            sols.append(tup)
        elif t is None:
            amb.append(tup)
    return sols, amb


class Runner(object):
    """Holds the class built from one program; runs single executions."""

    def __init__(self, prog):
        self.prog = prog
        self.standalone = prog.get('call') == 'vsc.randomize_with_fields'
        self.cls = None if self.standalone else P.mkclass(prog)

    def execute(self, X, script, capture=False):
        prog = self.prog
        if self.standalone:
            o = P.mkstandalone(prog)
            P.ns_set(o, prog, X)
        else:
            o = self.cls()
            P.set_fields(o, prog, X)
        rs = SRandState(script)
        _captured["on"] = capture
        _captured["bounds"] = None
        try:
            out = common.outcome(lambda: P.call(o, prog, rs))
        finally:
            _captured["on"] = False
        if self.standalone:
            vals, mism = P.ns_read(o, prog)
        else:
            try:
                vals, mism = P.read_fields(o, prog)
            except Exception as e:  # a read that raises is itself an observation
                vals, mism = {}, ("read", type(e).__name__, str(e)[:80])
        return out, vals, mism, (_captured["bounds"] if capture else None)


def const_menu(prog):
    """constants named by the program +-1 (extra alternatives at wide points)"""
    cs = set()

    def walk(e):
        if isinstance(e, tuple):
            if e and e[0] in ('lit', 'ulit', 'slit', 'elit'):
                cs.update([e[1] - 1, e[1], e[1] + 1])
            for x in e[1:]:
                walk(x)
        elif isinstance(e, list):
            for x in e:
                walk(x)
        elif isinstance(e, int) and not isinstance(e, bool):
            cs.update([e - 1, e, e + 1])
    walk(prog.get('block'))
    walk(prog.get('block2'))
    walk(prog.get('inline'))
    cs = sorted(cs)

    def menu(lo, hi):
        return [c for c in cs if lo <= c <= hi][:12]
    return menu


def freeze(vals):
    return tuple(sorted(vals.items()))


def run_case(case):
    """case = dict(prog=..., X=[dict...], bound=int|None, oracles=[...], cap=int)

    returns dict(counts, violations, sample)
    """
    prog = case['prog']
    Xs = case['X']
    bound = case.get('bound', 1)
    oracles = case.get('oracles', ('c01', 'c02'))
    cap = case.get('cap', 4000)
    core = case.get('core', True)           # all domains enumerable by the reference
    types = P.types_of(prog)
    doms = field_doms(prog) if core else None
    rnames = rand_names(prog)
    stmts_all = active_stmts(prog)
    hard = [s for s in stmts_all if s[0] != 'soft']
    cnt = {"executions": 0, "transitions": 0, "ambiguous": 0, "undecided": 0, "states": 0,
           "nontrivial": 0, "capped": 0, "wide": 0, "checked_ok": 0, "checked_fail": 0,
           "bounds_checked": 0, "support_checked": 0}
    viol = []

    def bad(sub, X, x, what, obs, exp, finding_hint=None):
        if len(viol) < 6:
            viol.append({"subcheck": sub, "case": {"prog": prog, "X": X, "choices": x.choices if x is not None else None,
                                                  "bound": bound},
                         "observed": obs, "expected": exp, "what": what, "hint": finding_hint})

    try:
        R = Runner(prog)
    except HarnessError:
        raise
    except Exception as e:
        # building the class failed: that is an observation for C02 only if the
        # reference says the program is well-formed; report as construction error
        cnt["construct_exc"] = 1
        if 'c02' in oracles:
            viol.append({"subcheck": "construct", "case": {"prog": prog, "X": None, "choices": None, "bound": bound},
                         "observed": [type(e).__name__, str(e)[:120]], "expected": "class construction succeeds",
                         "what": "constructing the class raised %s: %s" % (type(e).__name__, str(e)[:120])})
        return {"cnt": cnt, "viol": viol}
    menu = const_menu(prog) if not core else None
    mentioned = []
    for s_ in stmts_all:
        ref.stmt_fields(s_, mentioned)
    seen_states = set()
    for X in Xs:
        sols = amb = None
        if core:
            sols, amb = solve_ref(prog, X, rnames)
            solset = set(sols)
            full = 1
            for n in rnames:
                full *= len(doms[n])
            if 0 < len(sols) < full:
                cnt["nontrivial"] += 1
        outcomes = set()
        st = {}
        first = True
        reached = set()
        for x in explore(lambda s: R.execute(X, s, capture=('c14b' in oracles)), bound=bound, cap=cap,
                         extra_menu=menu, state=st):
            out, vals, mism, bounds = x.obs
            cnt["executions"] += 1
            cnt["transitions"] += len(x.trace) + 1
            key = (freeze(X), out[0], freeze(vals))
            if key not in seen_states:
                seen_states.add(key)
            # ---------------- frame: non-random fields unchanged (cheap, always)
            if out[0] in ('ok', 'solvefail'):
                for name, kind, w, rnd, init in prog['fields']:
                    if not rnd and name in X and vals.get(name) != X[name]:
                        bad("frame", X, x, "non-random field %s changed from %r to %r" % (name, X[name], vals.get(name)),
                            vals.get(name), X[name])
            # ---------------- C01
            if 'c01' in oracles and out[0] == 'ok' and not vals:
                bad("read_raises", X, x, "the call returned but reading the fields raised: %r" % (mism,), list(mism or []), "readable values")
            elif 'c01' in oracles and out[0] == 'ok':
                if mism is not None:
                    bad("read_paths", X, x, "read paths disagree: %r" % (mism,), list(mism), "equal")
                okv = True
                for name, kind, w, rnd, init in prog['fields']:
                    v = vals[name]
                    if kind == 'enum':
                        if v not in P.EN_VALUES:
                            okv = False
                            bad("type_range", X, x, "enum field %s = %r is not a declared enumerator" % (name, v), v, P.EN_VALUES)
                    elif not ref.in_type(v, w, kind == 'int'):
                        okv = False
                        bad("type_range", X, x, "field %s = %r outside %s%d" % (name, v, 'int' if kind == 'int' else 'bit', w),
                            v, "in declared type")
                if okv:
                    t = ref.block_truth(hard, types, vals)
                    if t is False:
                        bad("constraint_violated", X, x,
                            "call returned %r which violates the active hard constraints" % (dict(vals),),
                            dict(vals), "a solution")
                        cnt["checked_fail"] += 1
                    elif t is None:
                        cnt["ambiguous"] += 1
                    else:
                        cnt["checked_ok"] += 1
            # ---------------- C02
            if 'c02' in oracles and core:
                if sols:
                    if out[0] != 'ok':
                        bad("spurious_failure", X, x,
                            "satisfiable (e.g. %r) but the call ended with %r" % (dict(zip(rnames, sols[0])), out),
                            list(out), "returns normally")
                elif not amb:
                    if out[0] != 'solvefail':
                        bad("missed_unsat", X, x,
                            "no assignment satisfies the hard constraints but the call ended with %r %r" % (out[0], dict(vals)),
                            list(out), "SolveFailure")
                else:
                    cnt["undecided"] += 1
            # ---------------- C14 bounds
            if 'c14b' in oracles and core and first and bounds is not None and sols is not None:
                first = False
                has_soft = any(s[0] == 'soft' for s in stmts_all)
                if not has_soft:
                    for i, n in enumerate(rnames):
                        proj = sorted(set(t[i] for t in sols))
                        b = None
                        for k, (rl, nm) in bounds.items():
                            if nm == n:
                                b = rl
                        cnt["bounds_checked"] += 1
                        if b is None:
                            continue
                        miss = [v for v in proj if not any(lo <= v <= hi for lo, hi in b)]
                        if miss:
                            bad("bounds_too_small", X, x,
                                "inferred range %r of %s omits feasible value(s) %r" % (b, n, miss),
                                {"field": n, "range": b, "missing": miss}, "range contains every feasible value")
                        # a field no constraint mentions ranges over its whole type
                        if n not in mentioned:
                            dm = doms[n]
                            miss2 = [v for v in dm if not any(lo <= v <= hi for lo, hi in b)]
                            if miss2:
                                bad("unmentioned_not_full", X, x,
                                    "field %s is mentioned by no constraint but its range %r omits %r" % (n, b, miss2[:6]),
                                    {"field": n, "range": b}, "whole type")
            if out[0] == 'ok' and vals:
                reached.add(tuple(vals[n] for n in rnames))
            outcomes.add((out[0], freeze(vals) if out[0] == 'ok' else out[1:]))
        if st.get("capped"):
            cnt["capped"] += 1
        if st.get("wide"):
            cnt["wide"] += 1
        # ---------------- C14 support (complete tree only)
        if 'c14s' in oracles and core and bound is None and not st.get("capped") and not st.get("wide") and sols is not None:
            has_soft = any(s[0] == 'soft' for s in stmts_all)
            if not has_soft and not amb:
                cnt["support_checked"] += 1
                for i, n in enumerate(rnames):
                    proj = sorted(set(t[i] for t in sols))
                    got = sorted(set(t[i] for t in reached))
                    miss = [v for v in proj if v not in got]
                    if miss:
                        bad("starved", X, None,
                            "feasible value(s) %r of %s are produced by no answer sequence of the complete tree (reached %r)" % (miss, n, got),
                            {"field": n, "missing": miss, "reached": got}, "non-zero probability for every feasible value")
        cnt["states"] += len(outcomes)
    return {"cnt": cnt, "viol": viol}

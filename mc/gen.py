"""Bounded-exhaustive program generator (grammar G1 of DESIGN.md).

Everything is enumerated in a fixed simplest-first order; nothing is sampled.
"""
import itertools

from . import ref

U1, U2, U3, S1, S2, S3 = ('bit', 1), ('bit', 2), ('bit', 3), ('int', 1), ('int', 2), ('int', 3)


def fld(name, t, rnd=True, init=0):
    return [name, t[0], t[1], rnd, init]


def tmax(t):
    return (1 << (t[1] - 1)) - 1 if t[0] == 'int' else (1 << t[1]) - 1


def tmin(t):
    return -(1 << (t[1] - 1)) if t[0] == 'int' else 0


P_, Q_, X_ = ('f', 'p'), ('f', 'q'), ('f', 'x')


def atoms(tp, with_x):
    a = [P_, Q_]
    if with_x:
        a.append(X_)
    a += [('lit', 0), ('lit', 1), ('lit', 2), ('lit', -1), ('lit', tmax(tp)), ('lit', tmax(tp) - 1),
          ('lit', tmin(tp)), ('ulit', 2, 2), ('slit', -1, 2), ('ulit', 5, 3)]
    out = []
    for x in a:
        if x not in out:
            out.append(x)
    return out


def depth1(tp, tq, with_x):
    """every relation between a field and any atom; membership; part-select"""
    out = []
    at = atoms(tp, with_x)
    for rel in ref.REL:
        for a in (P_, Q_):
            for b in at:
                if a != b:
                    out.append(('expr', ('bin', rel, a, b)))
    # literal on the left-hand side (reflected operators of the facade)
    for rel in ('<', '>=', '=='):
        out.append(('expr', ('bin', rel, ('lit', 1), P_)))
    # plain value on the left, random field on the right: every relation (the mirrored forms of bound inference)
    for rel in ref.REL:
        out.append(('expr', ('bin', rel, ('lit', 2), P_)))
        out.append(('expr', ('bin', rel, ('ulit', 2, 2), Q_)))
        if with_x:
            out.append(('expr', ('bin', rel, X_, P_)))
            out.append(('expr', ('bin', rel, X_, Q_)))
    rls = [[1], [0, [2, 3]], [[1, 2]], [[1, 6], [3, 4]], [[3, 4], [1, 6]], [[0, 1], [1, 2]], [-1, 1], [[-2, 0]],
           [[2, 1]], [0, 0]]
    if with_x:
        rls += [[X_], [[X_, ('lit', 3)]], [[('lit', 0), X_]],
                # both bounds are fields
                [[X_, Q_]], [[Q_, X_]], [[X_, P_], 0],
                # both bounds are compound expressions (they reach the range constructor as built expressions)
                [[('bin', '+', X_, ('lit', 1)), ('bin', '+', Q_, ('lit', 1))]], [[('bin', '-', Q_, ('lit', 1)), ('bin', '+', X_, ('lit', 2))]]]
    for rl in rls:
        out.append(('expr', ('in', P_, rl)))
        out.append(('pyin', P_, rl))
        out.append(('expr', ('notin', P_, rl)))
        out.append(('expr', ('in', Q_, rl)))
    w = tp[1]
    for hi in range(w):
        for lo in range(hi + 1):
            for c in (0, 1, (1 << (hi - lo + 1)) - 1):
                out.append(('expr', ('bin', '==', ('psel', 'p', hi, lo), ('lit', c))))
            out.append(('expr', ('bin', '<', ('psel', 'p', hi, lo), Q_)))
    for b in range(w):
        out.append(('expr', ('bin', '==', ('bit', 'p', b), ('lit', 1))))
        out.append(('expr', ('bin', '!=', ('bit', 'p', b), ('bit', 'q', 0))))
    return out


def depth2(tp, tq, with_x, rels=('==', '<', '>='), full=False):
    """rel(bin(op, p, atom), atom2)"""
    out = []
    bs = [Q_, ('lit', 1), ('lit', -1), ('ulit', 2, 2)]
    cs = [Q_, P_, ('lit', 2), ('lit', -1)]
    if with_x:
        bs.append(X_)
        cs.append(X_)
    if full:
        bs += [('lit', 2), ('slit', -1, 2), ('lit', 3)]
        cs += [('lit', 0), ('ulit', 2, 2), ('lit', tmax(tp))]
    for rel in rels:
        for op in ref.ARI:
            for b in bs:
                for c in cs:
                    out.append(('expr', ('bin', rel, ('bin', op, P_, b), c)))
    # field on the right of the arithmetic node
    for op in ('-', '<<', '>>', '/', '%'):
        for c in (('lit', 1), Q_):
            out.append(('expr', ('bin', '==', ('bin', op, ('lit', 3), P_), c)))
    return out


def rel_menu(with_x):
    m = [('bin', '<', P_, Q_), ('bin', '==', P_, ('lit', 1)), ('bin', '>', Q_, ('lit', 0)),
         ('bin', '!=', P_, Q_), ('bin', '<=', Q_, ('lit', 1)), ('bin', '>=', P_, ('lit', 2))]
    if with_x:
        m.append(('bin', '<', P_, X_))
        m.append(('bin', '==', Q_, X_))
    return m


def boolean(with_x):
    out = []
    m = rel_menu(with_x)
    for a, b in itertools.permutations(m, 2):
        out.append(('expr', ('bin', '&', a, b)))
        out.append(('expr', ('bin', '|', a, b)))
    for a in m:
        out.append(('expr', ('not', a)))
    for a, b in itertools.combinations(m, 2):
        out.append(('expr', ('not', ('bin', '&', a, b))))
        out.append(('expr', ('bin', '&', ('not', a), b)))
        out.append(('expr', ('bin', '|', a, ('not', b))))
    return out


def conditional(with_x):
    out = []
    m = rel_menu(with_x)
    ex = [('expr', r) for r in m]
    for c in m[:4]:
        for s1 in ex:
            if s1[1] == c:
                continue
            out.append(('implies', c, [s1]))
            out.append(('if', c, [s1], None))
            for s2 in ex[:4]:
                if s2 == s1:
                    continue
                out.append(('if', c, [s1], [s2]))
    for c1, c2 in itertools.permutations(m[:4], 2):
        for s1, s2, s3 in itertools.permutations(ex[2:6], 3):
            out.append(('if', c1, [s1], ('if', c2, [s2], [s3])))
    # chains with two and three else_if arms (each arm pins q to a different value, so a lost
    # middle arm is visible), with and without a final else
    arms = [('bin', '==', P_, ('lit', 0)), ('bin', '==', P_, ('lit', 1)), ('bin', '==', P_, ('lit', 2)), ('bin', '>', P_, ('lit', 2))]
    pins = [('expr', ('bin', '==', Q_, ('lit', 1))), ('expr', ('bin', '==', Q_, ('lit', 0))), ('expr', ('bin', '==', Q_, ('lit', 2))),
            ('expr', ('bin', '==', Q_, ('lit', 3)))]
    for n in (3, 4):
        for order in itertools.permutations(range(4), n):
            if n == 4 and order[0] > order[1]:
                continue
            for last_else in (None, [('expr', ('bin', '!=', Q_, ('lit', 1)))]):
                chain = last_else
                for k in reversed(order):
                    chain = ('if', arms[k], [pins[k]], chain)
                out.append(chain)
    # conditions that are not comparisons: a multi-bit field or a bit-wise expression counts as true when non-zero
    nb = [P_, ('bin', '&', P_, ('lit', 2)), ('bin', '^', P_, Q_)] + ([X_] if with_x else [])
    for c in nb:
        for s1 in ex[1:4]:
            out.append(('implies', c, [s1]))
            out.append(('if', c, [s1], [ex[4]]))
        out.append(('if', ('bin', '==', Q_, ('lit', 0)), [ex[1]], ('if', c, [ex[5]], [ex[3]])))
    for c1, c2 in itertools.permutations(m[:3], 2):
        out.append(('if', c1, [ex[4]], ('if', c2, [ex[5]], None)))
        out.append(('implies', c1, [('if', c2, [ex[4]], [ex[5]])]))
        out.append(('if', c1, [('implies', c2, [ex[4]])], [ex[5]]))
        out.append(('if', c1, [ex[4], ex[2]], [ex[5]]))
    return out


def bitnot(tp, tq, with_x):
    """~ on multi-bit operands (bit-wise complement at the width of its context): alone, under an arithmetic
    node, on either side of a relation; 'unique' over three names, one of them possibly non-random"""
    out = []
    cs = [Q_, ('lit', 2), ('lit', -1), ('ulit', 2, 2), ('ulit', 5, 3), ('slit', -1, 2), ('lit', tmax(tp))]
    if with_x:
        cs.append(X_)
    for rel in ('==', '<', '>='):
        for c in cs:
            out.append(('expr', ('bin', rel, ('not', P_), c)))
            out.append(('expr', ('bin', rel, c, ('not', P_))))
    for op in ('+', '-', '&', '|', '^', '>>', '<<'):
        for b in ([Q_, ('ulit', 2, 2), ('lit', 1)] + ([X_] if with_x else [])):
            out.append(('expr', ('bin', '==', ('bin', op, ('not', P_), b), Q_)))
            out.append(('expr', ('bin', '==', ('bin', op, b, ('not', P_)), ('ulit', 5, 3))))
            out.append(('expr', ('bin', '<', ('not', ('bin', op, P_, b)), Q_)))
    out.append(('expr', ('bin', '==', ('not', ('not', P_)), Q_)))
    out.append(('expr', ('bin', '!=', ('not', P_), ('not', Q_))))
    if with_x:
        out.append(('expr', ('bin', '==', ('not', X_), P_)))
        out.append(('expr', ('in', P_, [[('not', X_), ('lit', 6)]])))
    return out


def nonrand_compound(tier):
    """a random field related to a compound expression over the non-random field only (arithmetic node or
    complement): the solver sees the compound value at the width and sign of the comparison, and so must whatever
    is inferred from it (value ranges)"""
    out = []
    bs = [('lit', 1), ('ulit', 2, 2), ('lit', -1)]
    if tier != 'quick':
        bs += [('ulit', 5, 3), ('lit', 3)]
    for rel in (ref.REL if tier != 'quick' else ('==', '<', '>=')):
        for op in ref.ARI:
            for b in bs:
                out.append(('expr', ('bin', rel, P_, ('bin', op, X_, b))))
                out.append(('expr', ('bin', rel, ('bin', op, X_, b), P_)))
                out.append(('expr', ('bin', rel, P_, ('bin', op, b, X_))))
        out.append(('expr', ('bin', rel, P_, ('not', X_))))
        out.append(('expr', ('bin', rel, ('not', X_), P_)))
    # ranges whose bounds are compound and non-random
    for lo, hi in ((('bin', '-', X_, ('lit', 1)), ('bin', '+', X_, ('lit', 1))), (('not', X_), ('lit', 6)),
                   (('lit', 1), ('bin', '*', X_, ('ulit', 2, 2))), (('bin', '%', X_, ('lit', -1)), ('bin', '<<', X_, ('lit', 1)))):
        out.append(('expr', ('in', P_, [[lo, hi]])))
        out.append(('expr', ('in', P_, [0, [lo, hi]])))
        out.append(('expr', ('notin', P_, [[lo, hi]])))
    return out


def single_statements(tp, tq, with_x, tier):
    st = depth1(tp, tq, with_x)
    if tier == 'quick':
        st += depth2(tp, tq, with_x)
    else:
        st += depth2(tp, tq, with_x, rels=ref.REL, full=True)
    st += boolean(with_x)
    st += conditional(with_x)
    st += bitnot(tp, tq, with_x)
    if with_x:
        st += nonrand_compound(tier)
    if tp == tq:
        st.append(('unique', ['p', 'q']))
    return st


def dedup(progs):
    seen = set()
    out = []
    for p in progs:
        k = repr(p)
        if k not in seen:
            seen.add(k)
            out.append(p)
    return out

"""./check <ID> [--tier quick|thorough] [--replay file]"""
import os
import sys
import json
import argparse
import importlib
import traceback


def main():
    ap = argparse.ArgumentParser()
    ap.add_argument("pid")
    ap.add_argument("--tier", default=os.environ.get("VERIF_TIER", "quick"))
    ap.add_argument("--replay", default=None)
    ap.add_argument("--only", default=None, help="restrict to one subcheck (debugging)")
    a = ap.parse_args()
    tier = a.tier if a.tier in ("quick", "thorough") else "quick"
    try:
        seed = int(os.environ.get("VERIF_SEED", "0"))
    except ValueError:
        seed = 0
    try:
        from mc import common, runner
        mod = importlib.import_module("props." + a.pid.lower())
        if a.replay:
            rec = json.load(open(a.replay))
            common.quiet()
            ok, msg = mod.replay(rec)
            common.loud()
            print(("REPLAY holds: " if ok else "REPLAY still violates: ") + str(msg))
            if not ok:
                print("VIOLATION property=%s replay=%s" % (a.pid.upper(), a.replay))
            return 0 if ok else 1
        res = runner.Result(a.pid.upper(), tier, seed, level=getattr(mod, "LEVEL", "model_checking"))
        mod.run(res, only=a.only)
        return res.finish()
    except SystemExit:
        raise
    except BaseException:
        sys.stdout = sys.__stdout__
        traceback.print_exc()
        print("HARNESS-ERROR property=%s" % a.pid.upper())
        return 2


if __name__ == "__main__":
    sys.exit(main())

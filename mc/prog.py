"""E2 - builds real @vsc.randobj classes from program ASTs.

The constraint methods walk the AST and apply the *real* overloaded operators
and context managers, so the user-facing front end (operator overloading, the
shared expression stack, scope stack) is inside the explored system.

program = {
  'fields': [[name, kind, width, is_rand, init], ...]   kind in bit|int|enum
  'block':  [stmt...]            class constraint block (may be empty)
  'inline': [stmt...] | None     inline block of randomize_with
  'call':   'randomize' | 'randomize_with' | 'vsc.randomize' | 'vsc.randomize_with'
}
"""
import enum
import operator as O

from .common import vsc


class EN(enum.IntEnum):
    """three enumerators: a negative one and a non-contiguous set, declared out of ascending order
    (whatever is derived from the declaration - value domains, index draws - must not assume it sorted)"""
    C = 5
    A = -2
    B = 1


ENUMS = {"EN": EN}
EN_VALUES = [int(m) for m in EN]

_OPS = {'==': O.eq, '!=': O.ne, '<': O.lt, '<=': O.le, '>': O.gt, '>=': O.ge,
        '+': O.add, '-': O.sub, '*': O.mul, '/': O.truediv, '%': O.mod,
        '&': O.and_, '|': O.or_, '^': O.xor, '<<': O.lshift, '>>': O.rshift}


def types_of(prog):
    """name -> (width, signed) as the reference model sees the fields"""
    t = {}
    for name, kind, w, rnd, init in prog['fields']:
        if kind == 'enum':
            t[name] = (32, True)
        else:
            t[name] = (w, kind == 'int')
    return t


def _mk_field(kind, w, rnd, init):
    if kind == 'bit':
        return (vsc.rand_bit_t if rnd else vsc.bit_t)(w, i=init)
    if kind == 'int':
        return (vsc.rand_int_t if rnd else vsc.int_t)(w, i=init)
    if kind == 'enum':
        return (vsc.rand_enum_t if rnd else vsc.enum_t)(EN)
    raise ValueError(kind)


def _item(o, it):
    if isinstance(it, tuple):
        return bexpr(it, o)
    return it


def _rangelist(o, items):
    args = []
    for it in items:
        if isinstance(it, list):
            if it[0] == ('f', 'x') or (isinstance(it[0], tuple) and it[0][0] == 'bin' and it[0][2] == ('f', 'x')):
                # both documented spellings of a range: vsc.rng(lo, hi) when the lower bound is the field x ...
                args.append(vsc.rng(_item(o, it[0]), _item(o, it[1])))
            else:
                # ... a (lo, hi) tuple otherwise
                args.append((_item(o, it[0]), _item(o, it[1])))
        else:
            args.append(_item(o, it))
    return vsc.rangelist(*args)


def bexpr(e, o):
    """Apply the real DSL operators; o gives the fields (raw/expr mode)."""
    k = e[0]
    if k == 'f':
        return getattr(o, e[1])
    if k == 'lit':
        return e[1]
    if k == 'elit':
        return EN(e[1])
    if k == 'ulit':
        return vsc.unsigned(e[1], e[2])
    if k == 'slit':
        return vsc.signed(e[1], e[2])
    if k == 'not':
        return ~bexpr(e[1], o)
    if k == 'psel':
        return getattr(o, e[1])[e[2]:e[3]]
    if k == 'bit':
        return getattr(o, e[1])[e[2]]
    if k == 'in':
        lhs = bexpr(e[1], o)
        if isinstance(lhs, int):
            lhs = vsc.signed(lhs, 32)
        return lhs.inside(_rangelist(o, e[2]))
    if k == 'notin':
        lhs = bexpr(e[1], o)
        return lhs.not_inside(_rangelist(o, e[2]))
    op = e[1]
    l = bexpr(e[2], o)
    if isinstance(l, int) and not isinstance(l, enum.Enum):
        l = vsc.signed(l, 32)
    r = bexpr(e[3], o)
    return _OPS[op](l, r)


def bstmts(stmts, o):
    for st in stmts:
        bstmt(st, o)


def bstmt(st, o):
    k = st[0]
    if k == 'expr':
        bexpr(st[1], o)
    elif k == 'pyin':
        # the documented statement form:  self.a in vsc.rangelist(...)
        bexpr(st[1], o) in _rangelist(o, st[2])
    elif k == 'soft':
        vsc.soft(bexpr(st[1], o))
    elif k == 'unique':
        vsc.unique(*[getattr(o, n) for n in st[1]])
    elif k == 'implies':
        with vsc.implies(bexpr(st[1], o)):
            bstmts(st[2], o)
    elif k == 'if':
        with vsc.if_then(bexpr(st[1], o)):
            bstmts(st[2], o)
        els = st[3]
        while els is not None:
            if isinstance(els, tuple) and els and els[0] == 'if':
                with vsc.else_if(bexpr(els[1], o)):
                    bstmts(els[2], o)
                els = els[3]
            else:
                with vsc.else_then:
                    bstmts(els, o)
                els = None
    elif k == 'solve_order':
        a = [getattr(o, n) for n in st[1]] if isinstance(st[1], list) else getattr(o, st[1])
        b = [getattr(o, n) for n in st[2]] if isinstance(st[2], list) else getattr(o, st[2])
        vsc.solve_order(a, b)
    elif k == 'dist':
        ws = []
        for val, wt in st[2]:
            if isinstance(val, list):
                val = (val[0], val[1])
            if isinstance(wt, tuple):
                wt = bexpr(wt, o)
            ws.append(vsc.weight(val, wt))
        vsc.dist(getattr(o, st[1]), ws)
    else:
        raise ValueError(k)


def mkclass(prog):
    fields = prog['fields']
    block = prog.get('block') or []
    block2 = prog.get('block2')

    class P(object):
        def __init__(self):
            for name, kind, w, rnd, init in fields:
                setattr(self, name, _mk_field(kind, w, rnd, init))

        @vsc.constraint
        def zz_blk(self):
            bstmts(block, self)

    if block2 is not None:
        def zz_blk2(self):
            bstmts(block2, self)
        P.zz_blk2 = vsc.constraint(zz_blk2)
    return vsc.randobj(P)


def set_fields(o, prog, vals):
    for name, kind, w, rnd, init in prog['fields']:
        if name in vals:
            v = vals[name]
            if kind == 'enum':
                v = EN(v)
            setattr(o, name, v)


def read_fields(o, prog):
    """attribute access AND get_val(); returns (dict, mismatch-or-None)"""
    out = {}
    mism = None
    for name, kind, w, rnd, init in prog['fields']:
        v = getattr(o, name)
        with vsc.raw_mode():
            fo = getattr(o, name)
        v2 = fo.get_val()
        if kind == 'enum':
            if not isinstance(v, EN):
                mism = (name, 'not an enumerator', repr(v))
                v = int(v) if isinstance(v, int) else -999999
            else:
                v = int(v)
            v2 = int(v2) if isinstance(v2, (int, EN)) else -999999
        else:
            v = int(v)
            v2 = int(v2)
        if v != v2 and mism is None:
            mism = (name, 'attr!=get_val', v, v2)
        out[name] = v
    return out, mism


class NS(object):
    """plain namespace holding stand-alone fields (vsc.randomize_with(f1, f2))"""
    pass


def mkstandalone(prog):
    ns = NS()
    for name, kind, w, rnd, init in prog['fields']:
        setattr(ns, name, _mk_field(kind, w, rnd, init))
    return ns


def ns_set(ns, prog, vals):
    for name, kind, w, rnd, init in prog['fields']:
        if name in vals:
            v = vals[name]
            getattr(ns, name).set_val(EN(v) if kind == 'enum' else v)


def ns_read(ns, prog):
    out = {}
    for name, kind, w, rnd, init in prog['fields']:
        v = getattr(ns, name).get_val()
        out[name] = int(v)
    return out, None


def call(o, prog, rs):
    """Perform the program's randomize call with random state rs."""
    kind = prog.get('call', 'randomize')
    inline = prog.get('inline')
    if kind == 'randomize':
        o.set_randstate(rs)
        o.randomize()
    elif kind == 'randomize_with':
        o.set_randstate(rs)
        with o.randomize_with() as it:
            bstmts(inline or [], it)
    elif kind == 'vsc.randomize':
        vsc.randomize(o, randstate=rs)
    elif kind == 'vsc.randomize_with':
        with vsc.randomize_with(o, randstate=rs):
            bstmts(inline or [], o)
    elif kind == 'vsc.randomize_with_fields':
        # o is an NS of stand-alone fields; only the inline block applies
        fl = [getattr(o, f[0]) for f in prog['fields'] if f[3]]
        with vsc.randomize_with(*fl, randstate=rs):
            bstmts(inline or [], o)
    else:
        raise ValueError(kind)

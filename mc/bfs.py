"""E4 - explicit-state breadth-first search over API-operation histories.

A state is the history that reaches it; live objects are rebuilt by replaying
the history on fresh real objects.  The dedup key is supplied by the system
(reference state + hidden implementation fingerprint).

A system provides (module-level, picklable by name):
    expand(hist) -> {"succ": [(op, key)], "viol": [...], "cnt": {...}}
        replays hist on a fresh world, tries every enabled op (running the
        property oracle on the step), and returns the canonical key reached
        by each op.
"""
from . import common


def search(expand, init_key, max_depth, seed=0, max_states=None):
    seen = {init_key}
    frontier = [[]]
    stats = {"states": 1, "transitions": 0, "depth_completed": 0, "frontier_sizes": [], "capped": False}
    viols = []
    cnts = {}
    for depth in range(max_depth):
        frontier = common.rotate(frontier, seed)
        stats["frontier_sizes"].append(len(frontier))
        res = common.pmap(expand, frontier, chunk=1 if len(frontier) < 64 else None)
        nxt = []
        for hist, r in zip(frontier, res):
            if isinstance(r, common.Crashed):
                viols.append({"subcheck": "interpreter_crash", "case": {"hist": hist}, "observed": r.get("reason"),
                              "expected": "every operation returns or raises", "finding": None,
                              "what": "while expanding the state reached by %r: %s" % (hist, r.get("reason"))})
                continue
            for k, v in r.get("cnt", {}).items():
                cnts[k] = cnts.get(k, 0) + v
            viols.extend(r.get("viol", []))
            for op, key in r["succ"]:
                stats["transitions"] += 1
                if key not in seen:
                    if max_states is not None and len(seen) >= max_states:
                        stats["capped"] = True
                        continue
                    seen.add(key)
                    nxt.append(hist + [op])
        stats["depth_completed"] = depth + 1
        stats["states"] = len(seen)
        frontier = nxt
        if not frontier:
            break
    stats["unexpanded_frontier"] = len(frontier)
    return stats, viols, cnts

"""E3 - reference model for constraint programs.  Plain Python over ints; does
not import vsc.

Expressions (tuples):
  ('f', name)              field
  ('lit', v)               Python int literal  = signed 32 bit
  ('ulit', v, w)           vsc.unsigned(v, w)
  ('slit', v, w)           vsc.signed(v, w)
  ('elit', v)              enumerator literal (signed 32 bit, value v)
  ('bin', op, l, r)        op in REL | ARI      (& | on 1-bit operands = Boolean composition)
  ('not', e)               ~e
  ('in', e, [item...])     item = int | [lo, hi]        (e in rangelist / e.inside)
  ('notin', e, [item...])
  ('psel', name, hi, lo)   field[hi:lo]
  ('bit', name, i)         field[i]

Statements:
  ('expr', e) ('if', cond, [then], else) with else = None | [stmts] | ('if', ...)
  ('implies', cond, [stmts]) ('unique', [names])

Two readings of every expression are computed:
  L  IEEE 1800 11.6-11.8 (self-determined sizes, whole-expression sign
     propagation, shifts sized by the left operand, signed / and %).
  N  the per-node rule the property anchors name (context width = max of the
     operand widths and the context, extension signed iff both operands are
     signed, applied at every binary node).
A (program, assignment) pair is judged only where both readings agree.
"""
import itertools

REL = ('==', '!=', '<', '<=', '>', '>=')
ARI = ('+', '-', '*', '/', '%', '&', '|', '^', '<<', '>>')


class Amb(Exception):
    """No reading-independent meaning (division by zero, ...)."""


def mask(w):
    return (1 << w) - 1


def tosigned(v, w):
    v &= mask(w)
    return v - (1 << w) if (v >> (w - 1)) & 1 else v


def dom(w, signed):
    if signed:
        return range(-(1 << (w - 1)), 1 << (w - 1))
    return range(1 << w)


def in_type(v, w, signed):
    return v in dom(w, signed) if w <= 16 else (
        (-(1 << (w - 1)) <= v < (1 << (w - 1))) if signed else (0 <= v < (1 << w)))


def desugar_in(e):
    """('in', lhs, items) -> Boolean tree of comparisons (same shape as the
    documented meaning: disjunction of equalities / closed ranges)."""
    lhs = e[1]
    t = None
    for it in e[2]:
        if isinstance(it, (list, tuple)) and len(it) == 2 and not isinstance(it[0], str):
            lo, hi = it
            c = ('bin', '&', ('bin', '>=', lhs, _lit(lo)), ('bin', '<=', lhs, _lit(hi)))
        else:
            c = ('bin', '==', lhs, _lit(it))
        t = c if t is None else ('bin', '|', t, c)
    if t is None:
        t = ('ulit', 1, 1)
    return t


def _lit(v):
    if isinstance(v, tuple):
        return v
    return ('lit', v)


# ------------------------------------------------------------------ reading L

def sdw(e, types):
    """self-determined (width, signed)"""
    k = e[0]
    if k == 'f':
        return types[e[1]]
    if k in ('lit', 'elit'):
        return 32, True
    if k == 'ulit':
        return e[2], False
    if k == 'slit':
        return e[2], True
    if k == 'not':
        return sdw(e[1], types)
    if k in ('in', 'notin'):
        return 1, False
    if k == 'psel':
        return e[2] - e[3] + 1, False
    if k == 'bit':
        return 1, False
    op = e[1]
    lw, ls = sdw(e[2], types)
    rw, rs = sdw(e[3], types)
    if op in REL:
        return 1, False
    if op in ('<<', '>>'):
        return lw, ls
    return max(lw, rw), (ls and rs)


def evalL(e, types, vals, w=None, s=None):
    k = e[0]
    sw, ss = sdw(e, types)
    if w is None:
        w, s = sw, ss
    if w < sw:
        w = sw
    if k in ('f', 'lit', 'elit', 'ulit', 'slit', 'psel', 'bit'):
        if k == 'f':
            v = vals[e[1]]
            ow, os_ = types[e[1]]
        elif k in ('lit', 'elit'):
            v, ow, os_ = e[1], 32, True
        elif k == 'ulit':
            v, ow, os_ = e[1], e[2], False
        elif k == 'slit':
            v, ow, os_ = e[1], e[2], True
        elif k == 'psel':
            fw, _ = types[e[1]]
            v = ((vals[e[1]] & mask(fw)) >> e[3]) & mask(e[2] - e[3] + 1)
            ow, os_ = e[2] - e[3] + 1, False
        else:
            fw, _ = types[e[1]]
            v = ((vals[e[1]] & mask(fw)) >> e[2]) & 1
            ow, os_ = 1, False
        v &= mask(ow)
        if w > ow and s and os_:
            v = tosigned(v, ow) & mask(w)
        return v & mask(w)
    if k in ('in', 'notin'):
        r = evalL(desugar_in(e), types, vals) & 1
        if k == 'notin':
            r ^= 1
        return r
    if k == 'not':
        return (~evalL(e[1], types, vals, w, s)) & mask(w)
    op = e[1]
    if op in REL:
        lw, ls = sdw(e[2], types)
        rw, rs = sdw(e[3], types)
        cw = max(lw, rw)
        cs = ls and rs
        a = evalL(e[2], types, vals, cw, cs)
        b = evalL(e[3], types, vals, cw, cs)
        if cs:
            a = tosigned(a, cw)
            b = tosigned(b, cw)
        return int({'==': a == b, '!=': a != b, '<': a < b, '<=': a <= b,
                    '>': a > b, '>=': a >= b}[op])
    if op in ('<<', '>>'):
        a = evalL(e[2], types, vals, w, s)
        b = evalL(e[3], types, vals)
        if op == '<<':
            return (a << b) & mask(w) if b < w + 64 else 0
        return (a >> b) & mask(w)
    a = evalL(e[2], types, vals, w, s)
    b = evalL(e[3], types, vals, w, s)
    if op == '+':
        return (a + b) & mask(w)
    if op == '-':
        return (a - b) & mask(w)
    if op == '*':
        return (a * b) & mask(w)
    if op in ('/', '%'):
        if b == 0:
            raise Amb('div0')
        if s:
            sa, sb = tosigned(a, w), tosigned(b, w)
            q = abs(sa) // abs(sb)
            q = -q if (sa < 0) != (sb < 0) else q
            r = sa - q * sb
            return (q if op == '/' else r) & mask(w)
        return (a // b if op == '/' else a % b) & mask(w)
    if op == '&':
        return a & b
    if op == '|':
        return a | b
    if op == '^':
        return a ^ b
    raise ValueError(op)


# ------------------------------------------------------------------ reading N

def wN(e, types):
    k = e[0]
    if k == 'f':
        return types[e[1]]
    if k in ('lit', 'elit'):
        return 32, True
    if k == 'ulit':
        return e[2], False
    if k == 'slit':
        return e[2], True
    if k == 'not':
        w, s = wN(e[1], types)
        return w, s
    if k in ('in', 'notin'):
        return 1, False
    if k == 'psel':
        return e[2] - e[3] + 1, False
    if k == 'bit':
        return 1, False
    op = e[1]
    lw, ls = wN(e[2], types)
    rw, rs = wN(e[3], types)
    if op in REL:
        return 1, (ls and rs)
    return max(lw, rw), (ls and rs)


def evalN(e, types, vals, ctx=-1):
    """returns (value, width)"""
    k = e[0]
    if k == 'f':
        w, s = types[e[1]]
        return vals[e[1]] & mask(w), w
    if k in ('lit', 'elit'):
        w = max(32, ctx)
        return e[1] & mask(w), w
    if k in ('ulit', 'slit'):
        w = max(e[2], ctx)
        return e[1] & mask(w), w
    if k == 'psel':
        fw, _ = types[e[1]]
        n = e[2] - e[3] + 1
        return ((vals[e[1]] & mask(fw)) >> e[3]) & mask(n), n
    if k == 'bit':
        fw, _ = types[e[1]]
        return ((vals[e[1]] & mask(fw)) >> e[2]) & 1, 1
    if k in ('in', 'notin'):
        v, w = evalN(desugar_in(e), types, vals)
        v = 1 if v else 0
        if k == 'notin':
            v ^= 1
        return v, 1
    if k == 'not':
        ew, _ = wN(e[1], types)
        c = max(ctx, ew)
        v, w = evalN(e[1], types, vals, c)
        return (~v) & mask(w), w
    op = e[1]
    lw, ls = wN(e[2], types)
    rw, rs = wN(e[3], types)
    c = max(ctx, lw, rw)
    a, aw = evalN(e[2], types, vals, c)
    b, bw = evalN(e[3], types, vals, c)
    sg = ls and rs

    def ext(v, w):
        if c > w:
            return (tosigned(v, w) & mask(c)) if sg else v
        return v
    a = ext(a, aw)
    b = ext(b, bw)
    w = max(c, aw, bw)
    if op in REL:
        if sg:
            a = tosigned(a, w)
            b = tosigned(b, w)
        return int({'==': a == b, '!=': a != b, '<': a < b, '<=': a <= b,
                    '>': a > b, '>=': a >= b}[op]), 1
    if op == '+':
        return (a + b) & mask(w), w
    if op == '-':
        return (a - b) & mask(w), w
    if op == '*':
        return (a * b) & mask(w), w
    if op == '/':
        if b == 0:
            raise Amb('div0')
        return a // b, w
    if op == '%':
        if b == 0:
            raise Amb('div0')
        return a % b, w
    if op == '&':
        return a & b, w
    if op == '|':
        return a | b, w
    if op == '^':
        return a ^ b, w
    if op == '<<':
        return ((a << b) & mask(w) if b < w else 0), w
    if op == '>>':
        return (a >> b if b < w else 0), w
    raise ValueError(op)


def truth(e, types, vals):
    """True / False where both readings agree, None where they do not."""
    try:
        lv = evalL(e, types, vals) != 0
        nv = evalN(e, types, vals)[0] != 0
    except Amb:
        return None
    if lv != nv:
        return None
    return lv


# ------------------------------------------------------------------ statements

def stmt_truth(st, types, vals):
    """True / False / None(ambiguous).  Ambiguity of a sub-term that cannot
    influence the result (short-circuit by a decided value) is not ambiguity."""
    k = st[0]
    if k == 'expr':
        return truth(st[1], types, vals)
    if k == 'soft':
        return True
    if k == 'unique':
        names = st[1]
        vs = [vals[n] for n in names]
        return len(set(vs)) == len(vs)
    if k == 'implies':
        c = truth(st[1], types, vals)
        if c is False:
            return True
        b = block_truth(st[2], types, vals)
        if c is True:
            return b
        return True if b is True else None
    if k == 'if':
        c = truth(st[1], types, vals)
        t = block_truth(st[2], types, vals)
        els = st[3]
        if els is None:
            f = True
        elif isinstance(els, tuple) and els and els[0] == 'if':
            f = stmt_truth(els, types, vals)
        else:
            f = block_truth(els, types, vals)
        if c is True:
            return t
        if c is False:
            return f
        if t == f and t is not None:
            return t
        return None
    if k == 'pyin':
        return truth(('in', st[1], st[2]), types, vals)
    if k in ('solve_order', 'dist'):
        return True
    raise ValueError(k)


def block_truth(stmts, types, vals):
    res = True
    for st in stmts:
        t = stmt_truth(st, types, vals)
        if t is False:
            return False
        if t is None:
            res = None
    return res


def solutions(stmts, types, rand_names, vals_fixed):
    """Enumerate assignments of rand_names (their full type domains).
    Returns (sols, amb): lists of tuples in the order of rand_names."""
    sols = []
    amb = []
    doms = [dom(*types[n]) for n in rand_names]
    vals = dict(vals_fixed)
    for tup in itertools.product(*doms):
        for n, v in zip(rand_names, tup):
            vals[n] = v
        t = block_truth(stmts, types, vals)
        if t is True:
            sols.append(tup)
        elif t is None:
            amb.append(tup)
    return sols, amb


def expr_fields(e, out=None):
    if out is None:
        out = []
    k = e[0]
    if k in ('f', 'psel', 'bit'):
        if e[1] not in out:
            out.append(e[1])
    elif k == 'bin':
        expr_fields(e[2], out)
        expr_fields(e[3], out)
    elif k == 'not':
        expr_fields(e[1], out)
    elif k in ('in', 'notin'):
        expr_fields(e[1], out)
        for it in e[2]:
            if isinstance(it, tuple):
                expr_fields(it, out)
            elif isinstance(it, list):
                for x in it:
                    if isinstance(x, tuple):
                        expr_fields(x, out)
    return out


def stmt_fields(st, out=None):
    if out is None:
        out = []
    k = st[0]
    if k in ('expr', 'soft'):
        expr_fields(st[1], out)
    elif k == 'pyin':
        expr_fields(('in', st[1], st[2]), out)
    elif k == 'unique':
        for n in st[1]:
            if n not in out:
                out.append(n)
    elif k == 'implies':
        expr_fields(st[1], out)
        for s in st[2]:
            stmt_fields(s, out)
    elif k == 'if':
        expr_fields(st[1], out)
        for s in st[2]:
            stmt_fields(s, out)
        els = st[3]
        if els is not None:
            if isinstance(els, tuple) and els and els[0] == 'if':
                stmt_fields(els, out)
            else:
                for s in els:
                    stmt_fields(s, out)
    return out

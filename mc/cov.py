"""Coverage helpers: build real covergroups from spec dicts; reference bin
partitioner and counters written from the property statements (C10-C13, C19).

coverpoint spec:
  {'type': ('bit',3)|('int',3)|('enum',), 'bins': None | [[name, kind, ...]],
   'auto_bin_max': int|None, 'ignore': [items]|None, 'illegal': [items]|None,
   'iff': None|'field'|'lambda', 'at_least': int|None, 'weight': int|None}
bin entries:
   [name, 'bin', item, item...]            item = int | [lo, hi]
   [name, 'arr', n_or_None, item, item...]
"""
import enum

from .common import vsc


class EN4(enum.IntEnum):
    A = 0
    B = 1
    C = 4
    D = 7


def type_values(t):
    if t[0] == 'bit':
        return list(range(1 << t[1]))
    if t[0] == 'int':
        return list(range(-(1 << (t[1] - 1)), 1 << (t[1] - 1)))
    return [int(e) for e in EN4]


def mk_type(t):
    if t[0] == 'bit':
        return vsc.bit_t(t[1])
    if t[0] == 'int':
        return vsc.int_t(t[1])
    return vsc.enum_t(EN4)


def items_values(items):
    s = set()
    for it in items:
        if isinstance(it, (list, tuple)):
            s.update(range(it[0], it[1] + 1))
        else:
            s.add(it)
    return s


def _args(items):
    return [tuple(it) if isinstance(it, (list, tuple)) else it for it in items]


def partition(vals, n):
    """ascending value list -> n consecutive equal-size bins, remainder in the last"""
    vals = sorted(vals)
    if n is None or n >= len(vals):
        return [[v] for v in vals]
    per = len(vals) // n
    out = []
    for i in range(n):
        if i + 1 < n:
            out.append(vals[i * per:(i + 1) * per])
        else:
            out.append(vals[i * per:])
    return out


def ref_bins(cp):
    """(regular bins as list of value sets, ignore bins list of sets, illegal bins list of sets)"""
    excl = set()
    ign = []
    ill = []
    if cp.get('ignore'):
        for name, items in cp['ignore']:
            s = items_values(items)
            ign.append(s)
            excl |= s
    if cp.get('illegal'):
        for name, items in cp['illegal']:
            s = items_values(items)
            ill.append(s)
            excl |= s
    bins = []
    if not cp.get('bins'):
        tv = [v for v in type_values(cp['type']) if v not in excl]
        if cp['type'][0] == 'enum':
            bins = [[v] for v in sorted(tv)]
        else:
            n = cp.get('auto_bin_max') or 64
            bins = partition(tv, n)
    else:
        for b in cp['bins']:
            if b[1] == 'wild':
                # wildcard bin given as (value, mask): the values of the type that agree on the mask bits
                val, mask = b[2]
                s = set(v for v in type_values(cp['type']) if (v & mask) == (val & mask)) - excl
                if s:
                    bins.append(sorted(s))
            elif b[1] == 'bin':
                s = items_values(b[2:]) - excl
                if s:
                    bins.append(sorted(s))
            else:
                s = items_values(b[3:]) - excl
                bins += partition(s, b[2])
    return [set(b) for b in bins], ign, ill


def build_cg(spec, extra_cls_body=None):
    """spec: {'cps': [cp...], 'crosses': [[name, [cp indices], iff?]], 'options': {...}}
    returns a covergroup CLASS; instances sample(v0, v1, ..., en0, en1, ..., enx)"""
    cps = spec['cps']
    crosses = spec.get('crosses') or []

    @vsc.covergroup
    class CG(object):
        def __init__(self, variant=None):
            sv = {}
            for i, cp in enumerate(cps):
                sv['v%d' % i] = mk_type(cp['type'])
            for i, cp in enumerate(cps):
                if cp.get('iff'):
                    sv['en%d' % i] = vsc.bit_t(1)
            for j, cr in enumerate(crosses):
                if len(cr) > 2 and cr[2]:
                    sv['enx%d' % j] = vsc.bit_t(1)
            self.with_sample(sv)
            if spec.get('options'):
                for k, v in spec['options'].items():
                    setattr(self.options, k, v)
            cpo = []
            for i, cp in enumerate(cps):
                kw = {}
                if cp.get('bins'):
                    d = {}
                    for b in (variant['bins0'] if (variant is not None and i == 0 and variant.get('bins0')) else cp['bins']):
                        if variant is not None and b[0] in variant.get('drop_bins', ()):
                            continue
                        if b[1] == 'wild':
                            d[b[0]] = vsc.wildcard_bin(tuple(b[2]))
                        elif b[1] == 'bin':
                            d[b[0]] = vsc.bin(*_args(b[2:]))
                        else:
                            d[b[0]] = vsc.bin_array([] if b[2] is None else [b[2]], *_args(b[3:]))
                    kw['bins'] = d
                if cp.get('ignore'):
                    kw['ignore_bins'] = {n: vsc.bin(*_args(items)) for n, items in cp['ignore']}
                if cp.get('illegal'):
                    kw['illegal_bins'] = {n: vsc.bin(*_args(items)) for n, items in cp['illegal']}
                opts = {}
                if cp.get('auto_bin_max') is not None:
                    opts['auto_bin_max'] = cp['auto_bin_max']
                if cp.get('at_least') is not None:
                    opts['at_least'] = cp['at_least']
                if cp.get('weight') is not None:
                    opts['weight'] = cp['weight']
                if opts:
                    kw['options'] = opts
                if cp.get('iff') == 'field':
                    kw['iff'] = getattr(self, 'en%d' % i)
                elif cp.get('iff') == 'lambda':
                    kw['iff'] = (lambda i=i: getattr(self, 'en%d' % i))
                c = vsc.coverpoint(getattr(self, 'v%d' % i), **kw)
                setattr(self, 'cp%d' % i, c)
                cpo.append(c)
            for j, cr in enumerate(crosses):
                kw = {}
                if len(cr) > 2 and cr[2] == 'field':
                    kw['iff'] = getattr(self, 'enx%d' % j)
                elif len(cr) > 2 and cr[2] == 'lambda':
                    kw['iff'] = (lambda j=j: getattr(self, 'enx%d' % j))
                if len(cr) > 3 and cr[3]:
                    kw['options'] = cr[3]
                setattr(self, cr[0], vsc.cross([cpo[k] for k in cr[1]], **kw))
    return CG


def sample_args(spec, vals, ens=None, enx=None):
    """positional arguments of cg.sample in the order of with_sample"""
    cps = spec['cps']
    a = []
    for i, cp in enumerate(cps):
        v = vals[i]
        a.append(EN4(v) if cp['type'][0] == 'enum' else v)
    k = 0
    for i, cp in enumerate(cps):
        if cp.get('iff'):
            a.append(1 if (ens is None or ens[i]) else 0)
    for j, cr in enumerate(spec.get('crosses') or []):
        if len(cr) > 2 and cr[2]:
            a.append(1 if (enx is None or enx[j]) else 0)
    return a


def cp_hits(m):
    """(regular, ignore, illegal) hit vectors of a coverpoint model"""
    return ([m.get_bin_hits(i) for i in range(m.get_n_bins())],
            [m.get_ignore_bin_hits(i) for i in range(m.get_n_ignore_bins())],
            [m.get_illegal_bin_hits(i) for i in range(m.get_n_illegal_bins())])


def cp_names(m):
    return [m.get_bin_name(i) for i in range(m.get_n_bins())]

chk("C18",
    "Exhaustive enumeration of (width, signedness, written value, write path, read path) on the real facade objects: every integer in [-2^(w+1), 2^(w+1)] for widths up to 8 (quick) / 10 (thorough), boundary menus up to width 64, every part-select (hi,lo) and slice value for widths up to 5/7, enum fields and lists; compared with a two's-complement value model. The input space itself is the explored state space; no sampling.",
    "Trusted: the two's-complement reference in props/c18.py. Widths above 10 use a boundary value menu (declared non-exhaustive in that dimension).",
    "bounded exhaustive input enumeration against a reference model (explicit-state, real code)",
    "DESIGN.md section 3 C18")
chk("C01",
    "Stateless exhaustive exploration of the real randomize paths: every program of grammar G1 (depth<=2 expressions over all operators, Boolean composition, if/else-if/else, implies, unique, enum fields, 2-statement programs in class block / second block / inline, all four call kinds) x every value of the non-random field x every environment-answer sequence with at most 1 (thorough: 2) non-default answers; plus the complete truth table of the lowering (all fields non-random: one entry per (statement, assignment)). Oracle: reference evaluator; returned values must satisfy every active hard statement and lie in the declared type.",
    "Trusted: mc/ref.py (two readings, ambiguity filter: pairs where IEEE-1800 sizing and the per-node rule disagree are skipped and counted). Widths above 3 use template programs with boundary answer menus (non-exhaustive in the value dimension). Boolector determinism for a fixed assertion order.",
    "deviation-bounded exhaustive exploration of environment answers on the real code + exhaustive truth table, against a reference model",
    "DESIGN.md section 3 C01")
chk("C02",
    "Same explored space as C01 with the satisfiability oracle: the reference enumerates the random fields' value space for every program and every non-random value; a non-empty set forbids any exception, an empty set demands SolveFailure on every execution. The truth-table sub-check (all fields non-random) decides both directions per (statement, assignment).",
    "Trusted: mc/ref.py; pairs whose satisfiability differs between the two readings are skipped and counted.",
    "deviation-bounded exhaustive exploration of environment answers + exhaustive satisfiability reference",
    "DESIGN.md section 3 C02")
chk("C05",
    "All combinations of a hard-statement menu and a soft-statement menu (guards via if/else/implies, class block vs inline), every answer sequence with <=1 non-default answer (thorough: complete trees for two-soft programs, bound 2 on a slice), two consecutive calls per execution. Oracle: exact greedy-by-priority reference over the enumerated value space; every result must lie in hard /\\ greedy set.",
    "Trusted: greedy reference in props/c05.py written from the property statement (later wins, inline over class, guarded soft = guards -> soft).",
    "deviation-bounded exhaustive exploration against an exact greedy reference",
    "DESIGN.md section 3 C05")
chk("C06",
    "Explicit-state BFS over histories {create instance, randomize, randomize_with(inline set from a 9+5 entry menu incl. dynamic references, their &,|,~ compositions and indexed references through a list)} on a population of up to 4 roots; each randomizing step explored with <=2 non-default answers; reachable (a,b) pairs of every instance under the call must EQUAL the reference solution set, other instances untouched; hidden fingerprint (pretty-printed models, wrapper targets, shared stacks) turns any leftover trace into a new state. Plus all inline histories of length<=3 (thorough 4) over 6 scenarios on a class whose dynamic blocks contain softs and forward references, each last call over its complete answer tree.",
    "Trusted: per-instance predicates in props/c06.py. Deviation bound 2 reaches every value pair of one instance (argument in DESIGN.md).",
    "explicit-state BFS over API histories with deviation-bounded exploration of each randomizing step",
    "DESIGN.md section 3 C06")
chk("C07",
    "Explicit-state BFS (depth 5 quick / 6 thorough) over histories {toggle a block of an instance on/off, create instance, randomize root} on Base/Derived(overrides c1)/nested/list-held instances; each randomize explored with <=1 non-default answer; per-field reachable value sets must EQUAL what the enabled most-derived blocks of that very instance allow; other instances untouched. State key = reference enabled map + per-instance block flags + class-level wrapper flags. One block name extends another's. Plus all operation sequences {off,on,append,rand}^<=4 on a block holding a foreach.",
    "Trusted: ALLOWED table in props/c07.py. All constraints are per field, so per-field equality is exact.",
    "explicit-state BFS over API histories with state merging on reference state + hidden fingerprint",
    "DESIGN.md section 3 C07")
chk("C14",
    "(bounds) for every program of the C01/C02 core space, every non-random value and a menu of previous values, the range list captured at the Randomizer.randomize seam must contain every value of the reference solution set projected on each field; a field no constraint mentions must have its whole type. (support) complete answer trees of ~400 one-, two- and three-field programs (incl. ordering directives with a field no directive names, and a field of a non-random sub-object that has a block of its own): every feasible value must be produced by some answer sequence.",
    "Trusted: mc/ref.py; seam = wrapping Randomizer.randomize by name (fails closed if it disappears). Soft constraints are excluded from this oracle.",
    "exhaustive comparison of captured inferred ranges with enumerated solution sets + complete-tree support check",
    "DESIGN.md section 3 C14")
chk("C15",
    "Every weight list of 1-3 entries (values/ranges, weights 0..3 or from a non-random field, signed and unsigned fields) alone and with accompanying constraints, explored over the COMPLETE tree of answers with exact Fraction probabilities (mass sums to 1, asserted): zero-weight/unlisted mass is 0; unconstrained dist has P(entry)=w/total, uniform inside ranges (exact equality). dist inside foreach; weights from non-random fields changed between calls on one object (exact distribution of the last call). distselect/randselect over all weight vectors of length <=4: exact P(i)=w_i/total.",
    "Trusted: each randint() is uniform (CPython random). Programs whose tree exceeds the cap are counted, never judged.",
    "complete-tree exploration with exact outcome distributions",
    "DESIGN.md section 3 C15")
chk("C20",
    "156+ programs with ordering directives (single, list form, a before [b,c], chains), complete answer trees, exact distributions: support == reference solution set; uniform marginal of a when F_a == D_a; pair relation: equal (type of a, F_a, D_a) implies equal exact marginal of a across programs with different b-sides. Direct programs: a list on the after side, two ordered groups in one call, inline directives that change between calls on one object (distribution equal to a fresh object's).",
    "Trusted: mc/ref.py for solution sets; D_a captured at the Randomizer.randomize seam.",
    "complete-tree exploration with exact outcome distributions and a relational (pairwise) oracle",
    "DESIGN.md section 3 C20")
chk("C03",
    "Explicit-state BFS (depth 4 quick / 5 thorough) over histories of assignments, rand_mode toggles, rangelist/list edits and four kinds of randomizing calls (incl. free-standing vsc.randomize on a subset, calls made unsatisfiable) on three object variants; every randomizing step explored with <=2 non-default answers (bound raised up to the complete tree while solutions are missing). Frame: fields not random in the call unchanged after success and after SolveFailure. Call-time: reachable results EQUAL the reference solution set computed from the current x / rangelist / list / rand_mode.",
    "Trusted: reference predicates in props/c03.py. Empty rangelist / empty list membership are outside the alphabet (the statement gives them no meaning). A field with rand_mode off passed explicitly to vsc.randomize is outside the alphabet.",
    "explicit-state BFS over API histories with deviation-bounded exploration of each randomizing step and an equality oracle",
    "DESIGN.md section 3 C03")
chk("C08",
    "All object trees of depth<=2, fan-out<=2 from two classes (two siblings of one class always present, every attribute random or non-random, optional rand_list_t/list_t of two leaves) x cross-level constraint sets x presets that make non-random sub-objects violate their own block: every answer sequence with <=1 non-default answer (constraints hold on path-named fields, non-random parts untouched, their blocks not imposed) index-selected and nested-list references, a foreach in the own block of objects below list elements, a non-random sub-object holding a random-size list; plus witness-directed executions for every value of every field projection and every value pair of sibling/list-element pairs (equality with the enumerated reference solution set).",
    "Trusted: reference in props/objtree.py; solution sets enumerated for trees with <=8 random fields (larger trees get the inclusion oracle only).",
    "bounded exhaustive exploration over object-tree shapes + witness-directed reachability of every projected solution value",
    "DESIGN.md section 3 C08")
chk("C16",
    "Fault enumeration: every (scenario, fault position) pair - user exception at each statement position of a constraint body during construction (top level, inside if_then/implies/foreach, with a dangling expression), at each statement position of a randomize_with block, in pre/post_randomize of each object of the tree, unsatisfiable calls (once, twice, with solve_fail_debug=1), free-function with-blocks, dynamic-constraint bodies - x every follow-up sequence of length<=2 out of 6 follow-ups; checks (i) process-wide stacks empty and no override node / solver handle left on the victim, (ii) differential twin (pristine session run first in the same process) under identical answer scripts with <=1 deviation.",
    "Trusted: stack list and model walk in props/c16.py. Library-internal exceptions (not user code) are outside the statement.",
    "exhaustive fault-position enumeration with differential twin and state-idle invariant",
    "DESIGN.md section 3 C16", category="fault_enumeration")
chk("C17",
    "All object trees of props/objtree.py x {randomize, randomize_with, vsc.randomize} x values assigned by pre_randomize to a non-random field used in a constraint; every answer sequence with <=1 non-default answer; each class records (object, phase, snapshot). Oracle: exactly one pre and one post per object random in the call, none at or below a non-random sub-object; all pre before all post; pre sees pre-call values; solver saw pre's assignment; post sees final values. Random-size object lists whose solved size is below the number of populated elements: pre and post on the same objects.",
    "Trusted: expected_events() derived from the tree spec.",
    "bounded exhaustive exploration over object-tree shapes and call kinds with an event-log oracle",
    "DESIGN.md section 3 C17")
chk("C04",
    "Every program of a list grammar (bit/int/enum/object elements; fixed sizes 0..3; random sizes under 6 size constraints incl. size tied to a scalar and to an element; foreach over element/index/both with index arithmetic and neighbour relations; sum, product, unique, unique_vec, membership; pairs of statements) x every answer sequence with <=1 non-default answer, two consecutive calls, followed by every edit history of length<=2 out of 7 edits compared step by step with a Python-list twin and a further call whose result must again satisfy the statements over the edited list; the same statements inside a dynamic constraint referenced inline; foreach if/else decided by the index, a non-random field or an element of a non-random list. Oracle over what the list exposes: statements over list(o.l); len == size == iteration length; index == iteration; fixed size kept; size constraint holds.",
    "Trusted: per-program predicates in props/c04.py. Two open known findings (membership in a random-size list; sum/product when the size shares a rand set with an element) are matched by selector + predicted deviation.",
    "deviation-bounded exhaustive exploration of list programs and edit histories against a Python-list twin",
    "DESIGN.md section 3 C04")
chk("C10",
    "Every coverpoint specification of a grammar (explicit bins over values/ranges incl. unordered, adjacent, overlapping, nested ranges; bin arrays with/without count; pairs of bin entries; auto-bins with 5 auto_bin_max values on 3-, 4- and 8-bit types; enum coverpoints; ignore/illegal sets; iff as field and lambda) x EVERY value of the coverpoint's type sampled from a fresh covergroup (exhaustive (specification, value) table) x all sample sequences of length<=3 over bin representatives with the iff flag on/off. Oracle: reference partitioner and counters written from the statement; bins identified by position.",
    "Trusted: reference partitioner mc/cov.py. Bin names are not asserted here (C13 compares them between representations).",
    "exhaustive (specification, value) table and bounded sample sequences against a reference partitioner",
    "DESIGN.md section 3 C10")
chk("C19",
    "Every (value, mask) pair below 2^w on a w-bit coverpoint (w=6 quick, 8 thorough: 65536 masks x values) and every pattern string of up to 3 digits in the three bases with x ? _ at any position, as single wildcard bins (one and two patterns per bin) and wildcard bin arrays (no count, counts 1..3) x EVERY sample value of the type. Oracle: hit <=> (v & mask) == (value & mask) for some pattern; array = partition of the ascending matching values of the coverpoint's type.",
    "Trusted: matching()/partition reference in props/c19.py. One open known finding (array patterns with wildcard bits above the mask's top set bit), attributed only when the observed bins equal the exact predicted deviation.",
    "exhaustive pattern x sample-value table against a reference matcher",
    "DESIGN.md section 3 C19")
chk("C11",
    "All crosses of 2..3 coverpoints over 7 bin layouts (single bins, arrays, array behind a single bin and vice versa, partial coverage, counted arrays, range-then-value arrays, auto-bins), a second cross of the same arity, the type-level copy of every cross x iff on the cross and each coverpoint (field/lambda): every single sample (all value tuples x all iff tuples) from a fresh covergroup, and all sample sequences of length<=3 over a menu with miss-all and gated-off samples. Oracle: cross bins = row-major product of the coverpoints' bins, named after them; exactly the bin of the hit combination +1 iff all conditions hold.",
    "Trusted: expected() in props/c11.py and the C10 partitioner. Overlapping coverpoint bins are outside the alphabet (the statement defines no single combination then).",
    "exhaustive single-sample table and bounded sample sequences against a reference counter",
    "DESIGN.md section 3 C11")
chk("C12",
    "Explicit-state BFS (depth 5 quick / 6 thorough) over histories {create instance of shape s, sample instance i with one of 3 value tuples, query coverage (fills the caches; cache flags are part of the state key)} for 14 covergroup configurations (crosses with their own at_least/weight, at_least 1/2 at coverpoint and covergroup level, weights, ignore/illegal, enum, mixed arrays, wildcard patterns as constructor parameter), each started from either shape, up to 3 instances, a second covergroup class in the registry. At every state: instance hit vectors = own samples; type hits = bin-wise sum per shape; shapes form separate types; coverage = weighted share of bins with hits >= at_least, within 0..100, non-decreasing along every edge, 100 iff all covered.",
    "Trusted: reference counters in props/c12.py. coverpoint.get_coverage() (type level per coverpoint) is not judged: the statement defines type coverage for covergroups.",
    "explicit-state BFS over sample histories with reference counters and a monotonicity invariant on every edge",
    "DESIGN.md section 3 C12")
chk("C13",
    "The C12 population BFS (depth 5 / 6, 9 configurations incl. ignore/illegal bins, arrays, crosses, enum, trimmed auto-bins); at EVERY expanded state get_coverage_report_model(), get_coverage_report(details=True) (parsed) and write_coverage_db() re-read with PyUCIS are compared as structures type -> items -> (bin kind, name, count) with the in-memory models; percentages compared with get_coverage()/get_inst_coverage(); the state key (incl. registry lists) must be identical before and after every reporting call; instance names listed under a type are pairwise distinct.",
    "Trusted: text parser in props/c13.py; PyUCIS is part of the system under test as used by vsc. Type/instance names are compared by typename and by content (instances as multisets).",
    "explicit-state BFS with a differential oracle between four representations at every state",
    "DESIGN.md section 3 C13")
chk("C09",
    "Configurations and interleavings, each fully enumerated over 5 scenarios x 2 seeds x 5 calls: (a) one subprocess per PYTHONHASHSEED in {0..7, 2^32-1} (quick: 4 of them); (b) every subset (quick: sizes 1,2,5) of call boundaries x 4 kinds of unrelated activity; (c) all 8 debug/solve_fail_debug/srcinfo settings; (d) every permutation of hash values of model objects (fields, constraints, rand sets) for 6 (quick: 5, every 2nd) objects plus a rotation family - exhaustive stand-in for memory layout; (e) snapshot at every step i, restore at every later step j after j calls, two replays per snapshot, aliasing checks for get_randstate/set_randstate; (f) global random.seed fixes the sequence. Oracle: all transcripts of one scenario are equal.",
    "PYTHONHASHSEED values are a bounded configuration set (not all 2^32). Boolector determinism for a fixed assertion order is part of what is observed.",
    "exhaustive enumeration of configurations / interleavings / hash-order permutations with a transcript-equality oracle",
    "DESIGN.md section 3 C09")

chk("C18",
    "Exhaustive enumeration of (width, signedness, written value, write path, read path) on the real facade objects: every integer in [-2^(w+1), 2^(w+1)] for widths up to 8 (quick) / 10 (thorough), boundary menus up to width 64, every part-select (hi,lo) and slice value for widths up to 5/7, enum fields and lists; compared with a two's-complement value model. The input space itself is the explored state space; no sampling.",
    "Trusted: the two's-complement reference in props/c18.py. Widths above 10 use a boundary value menu (declared non-exhaustive in that dimension).",
    "bounded exhaustive input enumeration against a reference model (explicit-state, real code)",
    "DESIGN.md section 3 C18")

#!/usr/bin/env python3
"""Regenerates MANIFEST.json from the table below (kept in one place so the
manifest is always valid)."""
import json, os, subprocess

HERE = os.path.dirname(os.path.abspath(__file__))

CHECKS = {}
NOT_YET = {}

def chk(pid, text, note, technique, design_ref, category="model_checking"):
    CHECKS[pid] = dict(text=text, note=note, technique=technique, design_ref=design_ref, category=category)

exec(open(os.path.join(HERE, "manifest_table.py")).read())

props = [json.loads(l)["id"] for l in open(os.path.join(HERE, "properties.jsonl"))]
repo_commits = subprocess.run(["git", "-C", "/repo", "log", "--format=%H %s"], capture_output=True, text=True).stdout.splitlines()
hook_commits = [l.split()[0] for l in repo_commits if " hook:" in l or l.split(" ", 1)[1].startswith("hook:")]

m = {
    "version": 1,
    "setup_cmd": "true",
    "hooks": {
        "guard": "PYVSC_VERIF",
        "enable": "checks export PYVSC_VERIF=1 and import vsc from /repo/src of the current working tree; nothing is built",
        "baseline_off_cmd": "cd /repo && env -u PYVSC_VERIF /venv/bin/python -m pytest -ra -q -p no:cacheprovider --timeout=900 --continue-on-collection-errors",
        "source_commits": hook_commits,
        "add_only": True,
    },
    "engines": [
        {"name": "E1 choice-point explorer", "path": "mc/common.py",
         "serves_properties": ["C01", "C02", "C03", "C04", "C05", "C06", "C07", "C08", "C14", "C15", "C16", "C17", "C20"],
         "kind_free_text": "stateless DFS over environment-answer sequences (scripted RandState) of the real library, deviation-bounded or complete, exact Fraction probabilities"},
        {"name": "E2 program generator/builder", "path": "mc/gen.py mc/prog.py",
         "serves_properties": ["C01", "C02", "C05", "C14", "C15", "C20"],
         "kind_free_text": "bounded-exhaustive constraint-program ASTs built into real @vsc.randobj classes through the real DSL operators"},
        {"name": "E3 reference model", "path": "mc/ref.py",
         "serves_properties": ["C01", "C02", "C03", "C05", "C06", "C07", "C14", "C20"],
         "kind_free_text": "plain-Python evaluator with two readings (IEEE-1800 / per-node) and ambiguity filter; exhaustive solution sets"},
        {"name": "E4 history explorer", "path": "mc/bfs.py",
         "serves_properties": ["C03", "C06", "C07", "C11", "C12", "C13", "C16"],
         "kind_free_text": "explicit-state BFS over API-operation sequences, states rebuilt by replay on fresh real objects, canonical key = reference state + hidden implementation fingerprint"},
    ],
    "checks": [],
    "not_applicable": [],
    "notes": "All checks explore the real implementation (no separate model): every explored trace is an implementation trace. See DESIGN.md.",
}
for pid in props:
    if pid in CHECKS:
        c = CHECKS[pid]
        m["checks"].append({
            "property_id": pid,
            "quick_cmd": "./check %s --tier quick" % pid,
            "thorough_cmd": "./check %s --tier thorough" % pid,
            "evidence_file": "/verif/evidence/%s.json" % pid,
            "replay_cmd_template": "./check %s --replay {path}" % pid,
            "engine": "mc",
            "level_claimed": {"category": c["category"], "text": c["text"], "design_ref": c["design_ref"]},
            "level_note": c["note"],
            "technique": c["technique"],
        })
    else:
        m["not_applicable"].append({"property_id": pid, "reason": NOT_YET.get(pid, "check not built yet in this round (planned, see DESIGN.md section 3); not claimed until it runs silently on the unchanged tree")})
json.dump(m, open(os.path.join(HERE, "MANIFEST.json"), "w"), indent=1)
print("checks:", [c["property_id"] for c in m["checks"]])
